"""C13 -- answers depend only on the bytes: deterministic, repeatable, no observer effect."""
import io
import itertools
import json
import os
import subprocess
import sys
from concurrent.futures import ProcessPoolExecutor

from harness import asm, cachelib, progs
from harness.common import PY, VERIF, Check, Driver, env_child, report_broken_obligations, sx

CHILD = os.path.join(VERIF, "harness", "c13_child.py")
CORE = ["unparse", "dump", "has_import", "has_call", "unsafe_imports", "non_standard_imports",
        "safety", "trace", "dumps", "interp_cli"]
VIEWS13 = cachelib.VIEWS + ["interp_cli"]
MODELQ = {"interp_cli": "len"}      # the model is asked a harmless stand-in; that step is not compared
TWO_UNUSED = [("GLOBAL", ("os", "getcwd")), "EMPTY_TUPLE", "REDUCE", "POP",
              ("GLOBAL", ("os", "getpid")), "EMPTY_TUPLE", "REDUCE", "POP", "NONE", "STOP"]
MANY_UNUSED = [x for k in range(6) for x in
               [("GLOBAL", ("collections", "OrderedDict")), "EMPTY_TUPLE", "REDUCE", ("BINPUT", k), "POP"]] \
              + [("GLOBAL", (asm.SINK, "record")), ("BININT1", 3), "TUPLE1", "REDUCE", "STOP"]
WITNESS = b"0."          # C13_refuted_unrepaired_properties_cache


def base_pickles():
    import pickle
    return [
        ("natural", pickle.dumps({"k": [1, 2, {"s": (3, "x")}], "t": {4, 5}}, protocol=2)),
        ("eval", asm.fam_flagged(None, "eval")[0]),
        ("two_unused", asm.assemble(TWO_UNUSED)),
        ("many_unused", asm.assemble(MANY_UNUSED)),
        ("frozen", asm.assemble(["MARK", ("BININT1", 1), ("SHORT_BINUNICODE", "a"), "FROZENSET", "MARK",
                                 ("SHORT_BINUNICODE", "k"), ("BININT1", 1), "DICT", "TUPLE2", "STOP"])),
        ("broken", WITNESS),
        # several names from ONE module, for a non-standard, a standard and a denylisted module: anything that
        # groups findings or imports per module iterates a collection of names
        ("multi_import_nonstd", asm.assemble(
            ["MARK"] + [("GLOBAL", (asm.SINK, n)) for n in ("Pool", "Head", "Conv", "Norm", "record", "Dense")]
            + ["TUPLE", "STOP"])),
        ("multi_import_mixed", asm.assemble(
            [("PROTO", 2), "MARK"]
            + [("GLOBAL", ("collections", n)) for n in ("OrderedDict", "Counter", "deque", "ChainMap")]
            + [("GLOBAL", ("os", n)) for n in ("getcwd", "getpid", "sep", "linesep")]
            + [("GLOBAL", ("mypkg.layers", n)) for n in ("Pool", "Head", "Conv", "Norm")]
            + ["TUPLE", "STOP"])),
    ]


def big_pickles():
    """few, large: asked with a handful of histories only (every view of them is slow)"""
    return [
        # a display of more than 1000 items inside a call's arguments (one pickler batch), and a 300-character
        # literal nested in a call: anything that abbreviates or rewrites big nodes while analysing must not touch
        # the cached program (seeded C13 r7)
        ("set1001_p2", __import__("pickle").dumps(set(range(1001)), protocol=2)),
        ("bigcall", asm.assemble([("GLOBAL", (asm.SINK, "record")), "MARK", "MARK"]
                                 + [("BININT1", i % 200) for i in range(1003)]
                                 + ["LIST", ("BINUNICODE", "q" * 300), "TUPLE", "REDUCE", "STOP"])),
    ]


BIG_HISTORIES = [["safety", "unparse"], ["unparse", "safety", "unparse"], ["safety", "imports", "dumps", "unparse"],
                 ["unparse", "dumps"]]


# ------------------------------------------------------------------ one history on the real object
def run_case(case):
    """real object through one query history; every answer is compared (model-free) with the answer
    a brand-new Pickled.load(bytes) gives to that single question"""
    from fickling.fickle import Pickled
    data = bytes.fromhex(case["hex"])
    off = case.get("off", 0)
    try:
        if off:
            # the object under test is parsed from the middle of a stream (like a non-first member of a
            # stacked file); every reference object below is parsed from the bare bytes at offset 0:
            # answers must depend on the bytes alone, not on where they were found
            f = io.BytesIO(b"\x00" * off + data)
            f.seek(off)
            p = Pickled.load(f)
        else:
            p = Pickled.load(data)
    except Exception:
        return None                       # refused by the parser: outside the quantifier
    pool = cachelib.Pool()
    ids = [pool.add(o) for o in p]
    sexps = [pool.sexp(k) for k in ids]
    in_model = all(s is not None for s in sexps)
    steps, bad, known = [], [], False
    tainted = False
    for i, q in enumerate(case["queries"]):
        real = cachelib.view(p, q)
        fresh = Pickled.load(data)
        if q == "dumps":
            try:      # independent of Pickled.dumps: the opcodes' own encodings, and the source bytes
                ref = "D h" + b"".join(bytes(o.data) for o in list(fresh)).hex()
                if not data.startswith(bytes.fromhex(ref[3:])):
                    ref = "D <not a prefix of the source bytes>"
            except Exception as e:
                ref = "ERR " + cachelib.errname(e)
        else:
            ref = cachelib.view(fresh, q)
        steps.append(real)
        if real != ref:
            if tainted and q in cachelib.PROPS_VIEWS:
                known = True
            else:
                bad.append({"step": i, "query": q, "answer": real[:300], "brand_new_object": ref[:300]})
        if q in cachelib.PROPS_VIEWS and real.startswith("ERR"):
            tainted = True
    std = cachelib.standard_observables(p)
    ref_std = cachelib.standard_observables(Pickled.load(data))
    for k in ("text", "verdict", "findings", "dumps"):
        if std[k] != ref_std[k]:
            if tainted and k in ("verdict", "findings"):
                known = True
            else:
                bad.append({"step": "end", "observable": k, "after_history": str(std[k])[:300],
                            "brand_new_object": str(ref_std[k])[:300]})
    # re-parsed copy
    if not std["dumps"].startswith("ERR"):
        try:
            p2 = Pickled.load(bytes.fromhex(std["dumps"]))
            std2 = cachelib.standard_observables(p2)
            for k in ("text", "verdict", "findings", "dumps"):
                if std2[k] != ref_std[k]:
                    bad.append({"step": "reparse", "observable": k, "reparsed": str(std2[k])[:300],
                                "original": str(ref_std[k])[:300]})
        except Exception as e:
            bad.append({"step": "reparse", "error": f"{type(e).__name__}: {e}"})
    line = None
    if in_model and not any(s == "ERR RecursionError" for s in steps):
        stds, reprs = pool.tables()
        line = sx(["cache_run", sexps, [["read", MODELQ.get(q, q)] for q in case["queries"]], stds, reprs, "id"])
    return {"steps": steps, "bad": bad, "known": known, "line": line, "ids": ",".join(map(str, ids)),
            "std": std, "nfind": len(std["findings"])}


SEQ = [0]


def _work(batch):
    sys.setrecursionlimit(3000)
    out = []
    for c in batch:
        SEQ[0] += 1
        cachelib.arm_timeout()
        try:
            r = run_case(c)
            if r is not None:
                r["worker"] = [os.getpid(), SEQ[0]]
            out.append(r)
        except cachelib.HistoryTimeout:
            out.append({"steps": [], "bad": [], "known": False, "line": None, "ids": "", "std": {}, "nfind": 0,
                        "timeout": True})
        except Exception as e:      # the harness itself must not hide a crash of the implementation
            out.append({"crash": f"{type(e).__name__}: {e}", "steps": [], "bad": [
                {"step": "crash", "error": f"{type(e).__name__}: {e}"}], "known": False, "line": None,
                "ids": "", "std": {}, "nfind": 0})
        finally:
            cachelib.disarm_timeout()
    return out


def run_real(cases):
    B = 60
    batches = [cases[i:i + B] for i in range(0, len(cases), B)]
    with ProcessPoolExecutor(max_workers=14) as ex:
        return [r for rs in ex.map(_work, batches) for r in rs]


def child_answers(hexes, seed):
    p = subprocess.run([PY, CHILD], input=json.dumps({"pickles": hexes}), capture_output=True, text=True,
                       env=env_child({"PYTHONHASHSEED": str(seed)}), timeout=1500)
    if p.returncode != 0:
        raise RuntimeError("c13 child failed: " + p.stderr[-800:])
    return json.loads(p.stdout)["answers"]


def oracle_case(case):
    """model-free C13 on one (pickle, query history): returns what fails or None"""
    r = run_case(case)
    if r is None:
        return None
    if r["bad"]:
        return {"hex": case["hex"], "off": case.get("off", 0), "queries": case["queries"], "oracle":
                "an answer differs from what a brand-new object built from the same bytes answers",
                "first": r["bad"][0]}
    return None


def oracle_seeds(hexes, seeds):
    base = child_answers(hexes, 0)
    for s in seeds:
        other = child_answers(hexes, s)
        for h, a, b in zip(hexes, base, other):
            if a is None or b is None:
                if a != b:
                    return {"hex": h, "hashseed": s, "oracle": "accepted under one hash seed, refused under another"}
                continue
            for k in ("text", "verdict", "findings", "dumps"):
                if a[k] != b[k]:
                    return {"hex": h, "hashseed": s, "observable": k, "seed0": str(a[k])[:300],
                            "other": str(b[k])[:300],
                            "oracle": "answer differs between processes with different PYTHONHASHSEED"}
    return None


def first_diff(queries, a, b):
    """first step where two answer lists differ, ignoring properties-derived answers after a raising
    properties read (known finding D20)"""
    tainted = False
    for i, (q, x, y) in enumerate(zip(queries, a, b)):
        if x != y and not (tainted and q in cachelib.PROPS_VIEWS):
            return i
        if q in cachelib.PROPS_VIEWS and (x.startswith("ERR") or y.startswith("ERR")):
            tainted = True
    return None


def oracle_context(case, context):
    """answers must not depend on what ELSE the process analysed before: the history alone in a new
    process vs the same history after other pickles (first each single predecessor, then all of them)"""
    from harness import c14
    me = {"hex": case["hex"], "queries": case["queries"]}
    ctx = [{"hex": c["hex"], "off": c.get("off", 0), "queries": c["queries"]} for c in context]
    jobs = [{"mode": "c13", "histories": [me]}] + [{"mode": "c13", "histories": [c, me]} for c in ctx[::-1][:400]]
    if ctx:
        jobs.append({"mode": "c13", "histories": ctx + [me]})
    ans = c14.isolated_answers(jobs)
    alone = ans[0][0] if ans and ans[0] else None
    if alone is None:
        return None
    for job, a in zip(jobs[1:], ans[1:]):
        if not a or a[-1] is None:
            continue
        k = first_diff(case["queries"], a[-1], alone)
        if k is not None:
            return {"hex": case["hex"], "queries": case["queries"], "context": job["histories"][:-1],
                    "first": {"step": k, "query": case["queries"][k], "alone_in_a_new_process": alone[k][:300],
                              "after_the_context_histories": a[-1][k][:300]},
                    "oracle": "the answers for the same bytes differ depending on which other pickles the "
                              "process analysed before"}
    return None


def gen_pickles(chk, n):
    rng = chk.rng
    out = []
    from harness import c04
    lab = c04.labelled_programs(rng)
    for i in range(n):
        r = rng.random()
        if r < 0.30:
            out.append(("natural", progs.natural_pickle(rng)[0]))
        elif r < 0.60:
            out.append(("random", asm.assemble(progs.random_typed(rng))))
        elif r < 0.75:
            out.append(("flagged", asm.fam_flagged(rng)[0]))
        elif r < 0.90 and lab:
            out.append(("labelled", rng.choice(lab)[1]))
        else:
            out.append(("malformed", asm.assemble(progs.malformed(rng))))
    return out


def main(tier, seed):
    chk = Check("C13", tier, seed)
    chk.rule = ("accepted pickles: natural pickles of generated values (protocols 0-5), random typed opcode "
                "programs (<=40 opcodes), flagged families, labelled global x call x disposal programs, "
                "malformed programs (decompilation raises). Histories: ALL orderings of 3 (quick) / 4 "
                "(thorough) distinct questions out of 9 on 6 base pickles, random histories of <=8 questions "
                "out of 14 (with repetition). Every answer is compared with the extracted model AND with the "
                "answer of a brand-new object loaded from the same bytes; at the end text / verdict / finding "
                "set / dumps are compared with a brand-new object and with a re-parsed copy; a sample is "
                "re-run in 3 child processes with other PYTHONHASHSEEDs. distinct = (bytes, history); "
                "non-trivial = >=1 finding or a raising view")
    built = chk.regen_and_build(["proofs/CacheProofs.vo"])
    if built:
        chk.prove()
    rng = chk.rng
    k = 3 if tier == "quick" else 4
    nrand = 1500 if tier == "quick" else 40000
    cases = []
    for kind, data in base_pickles():
        for perm in itertools.permutations(CORE, k):
            cases.append({"kind": "exh:" + kind, "hex": data.hex(), "queries": list(perm)})
    chk.stats["exhaustive-orderings"] = len(cases)
    for kind, data in big_pickles():
        for qs in BIG_HISTORIES:
            cases.append({"kind": "big:" + kind, "hex": data.hex(), "queries": list(qs)})
    # the same pickles (plus PROTO-tampered ones, whose findings come from opcode-level analyses) parsed at a
    # non-zero stream offset
    offs = list(base_pickles()) + [("dupproto", asm.fam_flagged(rng, "dupproto")[0]),
                                   ("misproto", asm.assemble(["NONE", "POP", ("PROTO", 4), "NONE", "STOP"]))]
    for kind, data in offs:
        for off in (1, 51):
            cases.append({"kind": "offset:" + kind, "hex": data.hex(), "off": off,
                          "queries": ["safety", "unparse", "imports", "safety", "dumps"]})
    pk = gen_pickles(chk, nrand)
    for kind, data in pk:
        qs = [rng.choice(VIEWS13) for _ in range(rng.randrange(1, 9))]
        c = {"kind": kind, "hex": data.hex(), "queries": qs}
        if rng.random() < 0.25:
            c["off"] = rng.choice([1, 2, 9, 300])
        cases.append(c)
    results = run_real(cases)
    lines, idx = [], []
    for i, r in enumerate(results):
        if r is not None and r.get("line"):
            lines.append(r["line"])
            idx.append(i)
    try:
        out = Driver().query(lines, timeout=600 if tier == "quick" else 2400) if built else []
    except Exception as e:          # a model that does not answer is a broken correspondence, not a crash
        chk.oblige("the extracted model answers every history", False, f"{type(e).__name__}: {str(e)[:300]}")
        out, idx = [], []
    mism, bad_free, skipped, refused, known_hits, outside = [], [], {}, 0, 0, 0
    for i, (c, r) in enumerate(zip(cases, results)):
        if r is None:
            refused += 1
            continue
        if r.get("timeout"):
            chk.stats["histories-abandoned(view took > %ds)" % cachelib.LIMIT] = \
                chk.stats.get("histories-abandoned(view took > %ds)" % cachelib.LIMIT, 0) + 1
            continue
        chk.count()
        kk = c["kind"].split(":")[0]
        chk.stats[kk] = chk.stats.get(kk, 0) + 1
        if r["nfind"] or any(s.startswith("ERR") for s in r["steps"]):
            chk.nontriv((c["hex"], tuple(c["queries"])))
        if r["known"]:
            known_hits += 1
        for b in r["bad"]:
            bad_free.append({"hex": c["hex"], "off": c.get("off", 0), "queries": c["queries"], **b})
        if not r.get("line"):
            outside += 1
    for j, i in enumerate(idx if built else []):
        c, r = cases[i], results[i]
        msteps = out[j].split(" | ") if out[j] else []
        if out[j].startswith("!") or len(msteps) != len(r["steps"]):
            mism.append({"hex": c["hex"], "off": c.get("off", 0), "queries": c["queries"], "why": "model output malformed",
                         "model": out[j][:300]})
            continue
        tainted = False
        for n, (q, real, ms) in enumerate(zip(c["queries"], r["steps"], msteps)):
            cut = ms.rfind(" ids=")
            mans, mids = ms[4:cut], ms[cut + 5:]
            why = None if q in MODELQ else cachelib.compare_answer(real, mans)
            if tainted and q in cachelib.PROPS_VIEWS and why and not why.startswith("skip:"):
                why = "skip:known-" + cachelib.KNOWN_SIG
            if q in cachelib.PROPS_VIEWS and real.startswith("ERR"):
                tainted = True
            if mids != r["ids"]:
                why = "model opcode list changed by a read"
            if why is None:
                continue
            if why.startswith("skip:"):
                skipped[why[5:]] = skipped.get(why[5:], 0) + 1
                continue
            mism.append({"hex": c["hex"], "off": c.get("off", 0), "queries": c["queries"], "step": n, "query": q, "why": why,
                         "real": real[:300], "model": mans[:300]})
            break
    chk.stats["refused-by-parser"] = refused
    chk.stats["outside-model(opcode/argument the model does not carry)"] = outside
    chk.stats["answers-not-compared-with-model"] = skipped
    chk.stats["histories-touching-known-finding"] = known_hits
    if built:
        chk.oblige(f"correspondence: every answer of every history, real Pickled vs model, "
                   f"{len(idx)} histories", not mism, json.dumps(mism[:3]))
    chk.oblige(f"answers after any history equal those of a brand-new object and of a re-parsed copy "
               f"(real implementation, model-free), {len(cases) - refused} histories", not bad_free,
               json.dumps(bad_free[:3]))
    # the known finding is re-confirmed on the Coq witness
    wit = run_case({"hex": WITNESS.hex(), "queries": ["has_import", "has_import"]})
    k = chk.match_known(cachelib.KNOWN_SIG)
    if wit and wit["known"]:
        if k:
            chk.known_finding(k, "(witness pickle 302e: has_import raises, then answers False)")
        else:
            bad_free.append({"hex": WITNESS.hex(), "queries": ["has_import", "has_import"],
                             "step": 1, "answer": wit["steps"][1], "brand_new_object": wit["steps"][0]})
            chk.oblige("a failed `properties` read does not poison later reads", False, json.dumps(wit["steps"]))
    elif known_hits and not k:
        chk.oblige("a failed `properties` read does not poison later reads", False, "taint rule fired")
    # other hash seeds, other processes
    pool = [asm.assemble(TWO_UNUSED).hex(), asm.assemble(MANY_UNUSED).hex()] + [d.hex() for _, d in base_pickles()]
    withf = [c["hex"] for c, r in zip(cases, results) if r and r["nfind"] >= 2 and not c["kind"].startswith("exh")]
    rest = [c["hex"] for c, r in zip(cases, results) if r and not c["kind"].startswith("exh")]
    nchild = 250 if tier == "quick" else 4000
    pool += withf[: nchild // 2] + rest[: nchild // 2]
    pool = list(dict.fromkeys(pool))
    seeds = [1 + rng.randrange(1 << 30) for _ in range(3)]
    seed_bad, order_differs = [], 0
    try:
        base = {h: r["std"] for c, r in zip(cases, results) if r for h in [c["hex"]]}
        mine = child_answers(pool, 0)
        for s in seeds:
            other = child_answers(pool, s)
            for h, a, b in zip(pool, mine, other):
                chk.count()
                if a is None or b is None:
                    if a != b:
                        seed_bad.append({"hex": h, "hashseed": s, "why": "accepted/refused differs"})
                    continue
                if a["order"] != b["order"]:
                    order_differs += 1
                for kk in ("text", "verdict", "findings", "dumps"):
                    if a[kk] != b[kk]:
                        seed_bad.append({"hex": h, "hashseed": s, "observable": kk, "seed0": str(a[kk])[:200],
                                         "other": str(b[kk])[:200]})
                        break
        chk.stats["hashseed-children"] = {"pickles": len(pool), "seeds": seeds,
                                          "finding-list-order-differs(observation)": order_differs}
    except Exception as e:
        seed_bad.append({"why": f"child failed: {e}"})
    chk.oblige(f"decompiled text, verdict, finding set and dumps equal across 3 child processes with other "
               f"PYTHONHASHSEEDs, {len(pool)} pickles", not seed_bad, json.dumps(seed_bad[:3]))
    for c, r in list(zip(cases, results))[len(cases) - 3:]:
        if r:
            chk.sample({"kind": c["kind"], "hex": c["hex"][:120], "queries": c["queries"],
                        "answers": [s[:60] for s in r["steps"]]})
    chk.sample({"kind": cases[0]["kind"], "queries": cases[0]["queries"],
                "answers": [s[:60] for s in results[0]["steps"]] if results[0] else None})

    def search():
        for b in bad_free:
            if "queries" in b:
                why = oracle_case({"hex": b["hex"], "off": b.get("off", 0), "queries": b["queries"]})
                if why:
                    return why
        for b in seed_bad:
            if "hex" in b:
                why = oracle_seeds([b["hex"]], [b["hashseed"]])
                if why:
                    return why
        for m in mism:
            why = oracle_case({"hex": m["hex"], "off": m.get("off", 0), "queries": m["queries"]})
            if why:
                return why
        for m in (bad_free + mism)[:3]:     # what did the same worker process analyse before this history?
            i = next((j for j, c in enumerate(cases) if c["hex"] == m["hex"] and c["queries"] == m["queries"]), None)
            if i is None or not results[i] or not results[i].get("worker"):
                continue
            pid, seq = results[i]["worker"]
            ctx = sorted(((r["worker"][1], c) for c, r in zip(cases, results)
                          if r and r.get("worker") and r["worker"][0] == pid and r["worker"][1] < seq),
                         key=lambda t: t[0])
            why = oracle_context(cases[i], [c for _, c in ctx])
            if why:
                return why
        return None

    report_broken_obligations(chk, search)
    return chk.finish()


def replay(path):
    doc = json.load(open(path))
    case = doc.get("case") or {}
    if "hex" not in case:
        print("replay: no concrete input recorded; re-running the quick check")
        return main("quick", doc.get("seed", 0))
    sys.setrecursionlimit(3000)
    if "context" in case:
        why = oracle_context(case, case["context"])
    elif "hashseed" in case:
        why = oracle_seeds([case["hex"]], [case["hashseed"]])
    else:
        why = oracle_case({"hex": case["hex"], "off": case.get("off", 0), "queries": case.get("queries", [])})
    if why:
        print(f"VIOLATION property=C13 replay={path}")
        print(json.dumps(why)[:2000])
        return 1
    print("replay: the recorded case no longer fails")
    return 0
