"""C16 -- PyTorch payload insertion changes only the model pickle and keeps the model."""
import json
import os
import shutil
import subprocess

from harness import c16_child as ch
from harness.c17 import parse_sexp, unwire
from harness.common import BUILD, PY, VERIF, Check, Driver, env_child, report_broken_obligations, sx, wire

EXC = {"ValueError": "raised ValueError", "NotImplementedError": "raised NotImplementedError",
       "IndexError": "raised IndexError"}


def run_child(job, scratch, timeout):
    os.makedirs(scratch, exist_ok=True)
    job = dict(job, scratch=scratch)
    jp = os.path.join(scratch, "job.json")
    json.dump(job, open(jp, "w"))
    p = subprocess.run([PY, os.path.join(VERIF, "harness", "c16_child.py"), jp], env=env_child(), cwd=scratch,
                       stdout=subprocess.PIPE, stderr=subprocess.STDOUT, text=True, timeout=timeout)
    rp = os.path.join(scratch, "result.json")
    if p.returncode != 0 or not os.path.exists(rp):
        raise RuntimeError("C16 child failed: " + p.stdout[-1500:])
    return json.load(open(rp))


def hx(h):
    """member bytes travel as a content token (sha256 prefix): the model never inspects bytes, it only moves
    them and compares them for equality, so a collision-free stand-in is a faithful input"""
    import hashlib
    return wire("sha256:" + hashlib.sha256(bytes.fromhex(h)).hexdigest()[:32])


def query_for(o):
    """the model's view of the case: the input archive (names + bytes), the bystander, paths as the call sees
    them from its cwd, the identified formats, and the value of `inj` on the first model pickle"""
    if o["in_members"] is not None:
        arch = [[wire(n), hx(b)] for n, b in o["in_members"]]
    else:
        arch = [[wire(""), wire("not a zip: " + o["in_sha"])]]
    fs = [[wire("../in/model.pt"), arch], [wire("keep.txt"), [[wire(""), wire("bystander")]]]]
    if o["case"].get("out_exists"):
        fs.append([wire("injected_out.pt"), [[wire(""), wire("stale")]]])
    tbl = [[hx(o["first"]), hx(o["injv"])]] if o["first"] is not None and o["injv"] is not None else []
    return sx(["torch_inject", fs, wire("../in/model.pt"), wire("injected_out.pt"),
               [wire(f) for f in (o["formats"] or [])], False, bool(o["case"]["overwrite"]), tbl])


def compare(o, line, stats):
    """model prediction vs the real call: outcome, result members position by position, paths afterwards"""
    diffs = []
    if line.startswith("!"):
        return [line]
    head, _, rest = line.partition(" (")
    if head.startswith("raised") and " none" in head:
        head = head.replace(" none", "")
    # outcome
    if o["status"] == "done":
        if not head.startswith("done"):
            diffs.append(f"outcome real=done model={head}")
    else:
        if not head.startswith("raised"):
            diffs.append(f"outcome real=raised {o['exc']} model={head}")
        stats["refusal-exception-class-agrees"] = stats.get("refusal-exception-class-agrees", 0) \
            + int(line.startswith("raised " + str(o["exc"])))
    # split "<outcome> <archive|none> <fs>"
    body = line[len("done"):] if line.startswith("done") else line[line.index(" ", len("raised ")):]
    body = body.strip()
    if body.startswith("none"):
        arch, fs_txt = None, body[len("none"):].strip()
    else:
        depth, i = 0, 0
        for i, c in enumerate(body):
            depth += c == "("
            depth -= c == ")"
            if depth == 0:
                break
        arch, fs_txt = parse_sexp(body[: i + 1]), body[i + 1:].strip()
    fs = parse_sexp(fs_txt)
    if o["status"] == "done":
        real = o["res_members"]
        if arch is None:
            diffs.append("model refuses (no model member), implementation wrote a result")
        elif real is None:
            diffs.append("result is not a readable zip")
        else:
            if [unwire(m[0]) for m in arch] != [n for n, _ in real]:
                diffs.append(f"names real={[n for n, _ in real]} model={[unwire(m[0]) for m in arch]}")
            else:
                for k, (m, (n, b)) in enumerate(zip(arch, real)):
                    want = hx(o["in_members"][k][1]) if m[1] == "=" else m[1]
                    if hx(b) != want:
                        diffs.append(f"member {n}: bytes differ from the model's "
                                     f"({'copied' if m[1] == '=' else 'injected'})")
                        break
    # file system: paths as the call sees them
    def mp(p):
        return p[4:] if p.startswith("cwd/") else "../" + p
    real_files = {mp(p): v for p, v in o["after"].items() if v != "d"}
    model_files = {unwire(e[0]): e[1] for e in fs}
    if set(real_files) != set(model_files):
        diffs.append(f"paths afterwards: only real {sorted(set(real_files) - set(model_files))}, "
                     f"only model {sorted(set(model_files) - set(real_files))}")
    before = {mp(p): v for p, v in o["before"].items() if v != "d"}
    for p, tag in model_files.items():
        if p not in real_files:
            continue
        if tag == "same" and real_files[p] != before.get(p):
            diffs.append(f"{p}: model says unchanged")
        if tag == "injected" and mp(o["res_rel"]) != p and real_files[p] == before.get(p):
            diffs.append(f"{p}: model says it holds the injected archive")
    return diffs


def main(tier, seed):
    chk = Check("C16", tier, seed)
    chk.rule = ("torch.save files of generated objects -- 12 kinds (nn.Linear, Sequential with conv, modules with "
                "buffers, state dict, nested dict/list/tuple, bare tensor, zero-size tensors, shared storages and "
                "repeated tensors, 11 dtypes, non-contiguous views, list of dicts, a 40 kB tensor pair) with seeded shapes/values x 10 "
                "payload shapes (unicode, quotes, escapes, >255 and >65535 bytes, multi-line; each a verif_sink.record "
                "call) x both overwrite settings x pre-existing output; plus refusal paths (legacy pickle, "
                "unrecognised zip, model archive), a TorchScript archive and the two-data.pkl observation. "
                "Every kind x overwrite pair is always present; distinct = (kind, object seed, overwrite, out_exists, payload length)")
    built = chk.regen_and_build(["proofs/TorchProofs.vo"])
    if built:
        chk.prove()
    model_ok = any(o["name"].startswith("executable model") and o["ok"] for o in chk.obligations)
    scratch = os.path.join(BUILD, "scratch", f"c16-{os.getpid()}")
    shutil.rmtree(scratch, ignore_errors=True)
    res = None
    bad = []
    try:
        try:
            res = run_child({"mode": "run", "tier": tier, "seed": seed, "n": 300 if tier == "quick" else 2500},
                            scratch, 900 if tier == "quick" else 3000)
        except Exception as e:  # noqa
            chk.oblige("implementation side ran (one torch child process)", False, str(e))
        if res is not None:
            obs = res["obs"]
            for o in obs:
                c = o["case"]
                chk.count()
                chk.stats[c["kind"]] = chk.stats.get(c["kind"], 0) + 1
                chk.stats["status:" + o["status"]] = chk.stats.get("status:" + o["status"], 0) + 1
                if o["runtime"] is not None:
                    chk.stats["loaded-with-torch.load"] = chk.stats.get("loaded-with-torch.load", 0) + 1
                chk.nontriv((c["kind"], c["oseed"], c["overwrite"], c.get("out_exists"), len(c["payload"])))
            sizes = [o["in_size"] for o in obs]
            chk.stats["input-bytes-min/max"] = [min(sizes), max(sizes)]
            chk.stats["members-min/max"] = [min(len(o["in_members"] or []) for o in obs),
                                            max(len(o["in_members"] or []) for o in obs)]
            o = obs[0]
            chk.sample({"kind": o["case"]["kind"], "payload": o["case"]["payload"][:60], "overwrite": o["case"]["overwrite"],
                        "names": [n for n, _ in o["in_members"] or []], "sink_log": (o["runtime"] or {}).get("log"),
                        "tensors_equal": (o["runtime"] or {}).get("equal")})
            for o in obs:
                if o["case"].get("refusal"):
                    chk.sample({"kind": o["case"]["kind"], "formats": o["formats"], "raised": o["exc"]})
                    break
            if model_ok:
                out = Driver().query([query_for(o) for o in obs])
                mism = []
                for o, line in zip(obs, out):
                    d = compare(o, line, chk.stats)
                    if d:
                        mism.append({"case": o["case"], "diffs": d[:4]})
                chk.oblige(f"correspondence: outcome, member names/order/bytes, paths afterwards on {len(obs)} "
                           "inject_payload calls (model gets the real archive and the single-injection pickle)",
                           not mism, json.dumps(mism[:3])[:3000])
                bad += mism
                two = [o for o in obs if o["case"].get("observation")]
                chk.stats["two-data.pkl observation reproduced"] = bool(
                    two and two[0]["res_members"] and
                    [b for n, b in two[0]["res_members"] if n.endswith("/data.pkl")] == [two[0]["injv"]] * 2)
            fails = []
            for o in obs:
                why = ch.oracle(o)
                if why:
                    fails.append({"case": o["case"], "oracle": why})
            chk.oblige(f"property oracle on the implementation (archive, file level, torch.load: sink once, tensors "
                       f"equal) on {len(obs)} calls", not fails, json.dumps(fails[:3])[:3000])
            gen_ok = all(o["status"] == "done" for o in obs
                         if not o["case"].get("refusal")) and \
                sum(1 for o in obs if o["runtime"] and "error" not in o["runtime"]) >= len(ch.KINDS) * 2
            chk.oblige("generator sanity: every torch.save case was injected and loaded", gen_ok, "")

            def search():
                # the disagreeing inputs first, then everything observed; among failing cases the smallest
                found = []
                for c in bad:
                    for o in obs:
                        if o["case"] == c["case"]:
                            why = ch.oracle(o)
                            if why:
                                found.append({"case": o["case"], "oracle": why})
                found = found or fails
                if found:
                    return min(found, key=lambda f: len(f["case"]["payload"]))
                return None

            report_broken_obligations(chk, search)
        else:
            report_broken_obligations(chk, lambda: None)
    finally:
        shutil.rmtree(scratch, ignore_errors=True)
    return chk.finish()


def replay(path):
    doc = json.load(open(path))
    case = (doc.get("case") or {}).get("case")
    if not case:
        print("replay: no concrete input recorded; re-running the quick check")
        return main("quick", doc.get("seed", 0))
    scratch = os.path.join(BUILD, "scratch", f"c16-replay-{os.getpid()}")
    shutil.rmtree(scratch, ignore_errors=True)
    try:
        r = run_child({"mode": "case", "case": case, "seed": 0, "tier": "quick"}, scratch, 600)
    finally:
        shutil.rmtree(scratch, ignore_errors=True)
    if r["why"]:
        print(f"VIOLATION property=C16 replay={path}")
        print(r["why"])
        return 1
    print("replay: the recorded case no longer fails")
    return 0
