"""Opcode assembler over the live pickletools table: program = list of (NAME, arg) -> bytes."""
import pickletools
import struct

INFO = {op.name: op for op in pickletools.opcodes}


def _long_bytes(n: int) -> bytes:
    if n == 0:
        return b""
    nbytes = (n.bit_length() >> 3) + 1
    b = n.to_bytes(nbytes, "little", signed=True)
    if n < 0 and nbytes > 1 and b[-1] == 0xFF and (b[-2] & 0x80) != 0:
        b = b[:-1]
    return b


def raw_unicode_escape(s: str) -> bytes:
    # what pickle.py's save_str does for protocol 0
    s = s.replace("\\", "\\u005c").replace("\0", "\\u0000").replace("\n", "\\u000a")
    s = s.replace("\r", "\\u000d").replace("\x1a", "\\u001a")
    return s.encode("raw-unicode-escape")


def enc_arg(name, arg):
    info = INFO[name]
    if info.arg is None:
        return b""
    r = info.arg.reader.__name__
    if isinstance(arg, RawArg):
        return arg.data
    if r == "read_uint1":
        return bytes([arg])
    if r == "read_uint2":
        return struct.pack("<H", arg)
    if r == "read_int4":
        return struct.pack("<i", arg)
    if r == "read_uint4":
        return struct.pack("<I", arg)
    if r == "read_uint8":
        return struct.pack("<Q", arg)
    if r in ("read_decimalnl_short", "read_decimalnl_long"):
        if isinstance(arg, bool):
            return (b"01" if arg else b"00") + b"\n"
        if isinstance(arg, bytes):
            return arg + b"\n"
        s = str(arg)
        if r == "read_decimalnl_long":
            s += "L"
        return s.encode() + b"\n"
    if r == "read_stringnl":  # STRING: repr-quoted bytes
        if isinstance(arg, str):
            arg = arg.encode("latin-1")
        return repr(arg)[1:].encode("ascii") + b"\n"
    if r == "read_stringnl_noescape":
        return (arg if isinstance(arg, bytes) else str(arg).encode()) + b"\n"
    if r == "read_stringnl_noescape_pair":
        m, n = arg
        return m.encode() + b"\n" + n.encode() + b"\n"
    if r in ("read_string1", "read_bytes1"):
        if isinstance(arg, str):
            arg = arg.encode("latin-1")
        return bytes([len(arg)]) + arg
    if r == "read_string4":
        if isinstance(arg, str):
            arg = arg.encode("latin-1")
        return struct.pack("<i", len(arg)) + arg
    if r == "read_bytes4":
        return struct.pack("<I", len(arg)) + arg
    if r in ("read_bytes8", "read_bytearray8"):
        return struct.pack("<Q", len(arg)) + bytes(arg)
    if r == "read_unicodestringnl":
        return raw_unicode_escape(arg) + b"\n"
    if r == "read_unicodestring1":
        b = arg.encode("utf-8", "surrogatepass")
        return bytes([len(b)]) + b
    if r == "read_unicodestring4":
        b = arg.encode("utf-8", "surrogatepass")
        return struct.pack("<I", len(b)) + b
    if r == "read_unicodestring8":
        b = arg.encode("utf-8", "surrogatepass")
        return struct.pack("<Q", len(b)) + b
    if r == "read_long1":
        b = _long_bytes(arg)
        return bytes([len(b)]) + b
    if r == "read_long4":
        b = _long_bytes(arg)
        return struct.pack("<i", len(b)) + b
    if r == "read_float8":
        return struct.pack(">d", arg)
    if r == "read_floatnl":
        return repr(arg).encode() + b"\n"
    raise NotImplementedError(r)


class RawArg:
    """an argument given as its exact wire bytes"""

    def __init__(self, data: bytes):
        self.data = data


def assemble(prog) -> bytes:
    out = bytearray()
    for item in prog:
        if isinstance(item, str):
            name, arg = item, None
        else:
            name, arg = item[0], (item[1] if len(item) > 1 else None)
        out += INFO[name].code.encode("latin-1")
        out += enc_arg(name, arg)
    return bytes(out)


def show(prog) -> str:
    parts = []
    for item in prog:
        if isinstance(item, str):
            parts.append(item)
        elif len(item) == 1 or item[1] is None:
            parts.append(item[0])
        else:
            parts.append(f"{item[0]}:{item[1]!r}")
    return " ".join(parts)


# ---- small families used by several checks (all harmless when really unpickled) ----
SINK = "verif_sink"


def fam_benign(rng):
    import pickle
    vals = [[1, 2, 3], {"a": 1, "b": [2, 3]}, (1, "x", b"y"), 42, "text", [], {}, [[1], [2, [3]]],
            {"k": (1, 2)}, 3.5, None, True, [None, False], 2 ** 70, -5]
    v = rng.choice(vals)
    proto = rng.randrange(0, 6)
    if isinstance(v, float) and proto == 0:
        proto = 2  # protocol 0 floats use FLOAT, which fickling refuses to parse
    return pickle.dumps(v, protocol=proto)


def fam_flagged(rng, kind=None):
    """(bytes, label) -- flagged by fickling but harmless if loaded"""
    kinds = ["unused", "nonstd", "dupproto", "osmod", "eval", "nonstd_call", "builtin_call", "mixed", "mixed"]
    kind = kind or rng.choice(kinds)
    if kind == "unused":
        prog = [("GLOBAL", ("collections", "OrderedDict")), "EMPTY_TUPLE", "REDUCE", "POP", "NONE", "STOP"]
    elif kind == "nonstd":
        prog = [("GLOBAL", (SINK, "record")), "STOP"]
    elif kind == "nonstd_call":
        prog = [("PROTO", 2), ("GLOBAL", (SINK, "record")), ("BININT1", 7), "TUPLE1", "REDUCE", "STOP"]
    elif kind == "dupproto":
        prog = [("PROTO", 2), ("PROTO", 2), ("BININT1", 1), "STOP"]
    elif kind == "osmod":
        prog = [("GLOBAL", ("os", "getcwd")), "EMPTY_TUPLE", "REDUCE", "STOP"]
    elif kind == "eval":
        prog = [("GLOBAL", ("builtins", "eval")), "MARK", ("UNICODE", "1+1"), "TUPLE", "REDUCE", "STOP"]
    elif kind == "builtin_call":
        prog = [("GLOBAL", ("builtins", "len")), "MARK", "EMPTY_LIST", "TUPLE", "REDUCE", "STOP"]
    elif kind == "mixed":
        # two to four flagged fragments in a random order: findings of several severities in one pickle,
        # among them findings of ONE analysis name at different severities (eval vs another call), in both orders
        frags = {
            "eval": [("GLOBAL", ("builtins", "eval")), "MARK", ("UNICODE", "1+1"), "TUPLE", "REDUCE"],
            "nonstd_call": [("GLOBAL", (SINK, "record")), ("BININT1", 7), "TUPLE1", "REDUCE"],
            "builtin_call": [("GLOBAL", ("builtins", "len")), "MARK", "EMPTY_LIST", "TUPLE", "REDUCE"],
            "osmod": [("GLOBAL", ("os", "getcwd")), "EMPTY_TUPLE", "REDUCE"],
            "nonstd": [("GLOBAL", (SINK, "record"))],
            "std_call": [("GLOBAL", ("collections", "OrderedDict")), "EMPTY_TUPLE", "REDUCE"],
        }
        names = sorted(frags)
        rng.shuffle(names)
        chosen = names[: rng.randrange(2, 5)]
        prog = [("PROTO", 2)] if rng.random() < 0.5 else []
        for i, n in enumerate(chosen):
            prog += frags[n] + (["POP"] if i < len(chosen) - 1 else [])
        prog.append("STOP")
        kind = "mixed:" + "+".join(chosen)
    else:
        raise ValueError(kind)
    return assemble(prog), kind
