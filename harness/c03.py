"""C03 -- no hidden execution: everything the VM would import or call is in the decompile."""
import json
from concurrent.futures import ProcessPoolExecutor

from harness import vmcheck
from harness.common import Check, report_broken_obligations

PID = "C03"
WANT_VALUE = False


def classify(data):
    sigs = []
    if vmcheck.mutation_after_capture(data):
        sigs.append("mutation-after-capture")
    if vmcheck.same_name_globals(data):
        sigs.append("same-name-globals")
    try:
        from harness import vmlib
        _, _, w, _ = vmlib.vm_trace(data)
        sigs += sorted(w.flags)
    except Exception:
        pass
    return sigs


def _oracle_batch(args):
    want_value, batch = args
    out = []
    for d in batch:
        try:
            # a call that does not return is reported by the correspondence (TIMEOUT), not waited for here
            why = vmcheck.timed(vmcheck.oracle, d, want_value=want_value, default=None)
        except RecursionError:
            why = None
        out.append((why, (vmcheck.timed(classify, d, default=[]) if why else [])))
    return out


def run_oracle(datas, want_value):
    B = 300
    batches = [(want_value, datas[i:i + B]) for i in range(0, len(datas), B)]
    with ProcessPoolExecutor(max_workers=14) as ex:
        return [r for rs in ex.map(_oracle_batch, batches) for r in rs]


def main(tier, seed, pid=PID, want_value=WANT_VALUE, extra=None, build_targets=("proofs/SimProofs.vo",)):
    chk = Check(pid, tier, seed)
    chk.rule = ("programs: bounded-exhaustive typed enumeration over a 34-opcode alphabet (quick <=3 opcodes + STOP, "
                "thorough <=5), random typed programs (<=40 opcodes, 25-global labelled vocabulary, every "
                "global/call-making opcode, POP/POP_MARK/DUP/memo disposals), natural pickles of generated values "
                "(instances, reduce, newargs, shared refs) at protocols 0-5, malformed programs. (a) correspondence: "
                "decompiled module body and reference-VM value+event log, real vs model; (b) the property itself on "
                "the real implementation: events of exec(unparse(ast)) under inert stand-ins vs the instrumented "
                "pure-Python unpickler. distinct = distinct byte strings; non-trivial = the reference VM logs >=1 event")
    built = chk.regen_and_build(list(build_targets))
    if built:
        chk.prove()
    corpus = vmcheck.build_corpus(chk, tier, pid.lower() + ".jsonl")
    # known findings are re-confirmed on their recorded inputs first
    for k in chk.known:
        if k.get("status", "known") == "known" and k.get("replay", {}).get("hex"):
            corpus.insert(0, ("known:" + k["id"], bytes.fromhex(k["replay"]["hex"]), None))
    datas = [d for _, d, _ in corpus]
    results = vmcheck.run_real(datas)
    mism = []
    if built:
        mism, ncmp = vmcheck.correspond(chk, corpus, results)
        chk.oblige(f"correspondence: decompiled body (Interp) and value+events (RefVM), real vs model, "
                   f"{ncmp} programs", not mism, json.dumps(mism[:3]))
    seen = set()
    for (kind, data, _), r in zip(corpus, results):
        chk.count()
        chk.stats[kind.split(":")[0]] = chk.stats.get(kind.split(":")[0], 0) + 1
        if r is not None and data not in seen:
            seen.add(data)
            if r["vm"].startswith("OK") and r["vm"].split(" | ", 1)[-1].strip():
                chk.nontriv(data.hex())
    # (b) the property itself on the real implementation
    orc = run_oracle(datas, want_value)
    new_fail = []
    for (kind, data, _), (why, sigs) in zip(corpus, orc):
        if not why:
            continue
        known = None
        for s in sigs:
            known = known or chk.match_known(s)
        if known:
            chk.known_finding(known)
            chk.stats["known:" + known["id"]] = chk.stats.get("known:" + known["id"], 0) + 1
        else:
            new_fail.append({"kind": kind, "hex": data.hex(), **why})
    if extra:
        new_fail += extra(chk, corpus)
    new_fail.sort(key=lambda f: len(f["hex"]))
    chk.oblige(f"property oracle on the real implementation holds on {len(datas)} programs "
               f"(known findings excluded by their precondition classifier)", not new_fail,
               json.dumps(new_fail[:2])[:3000])
    for kind, data, _ in corpus[len(corpus) // 3: len(corpus) // 3 + 2]:
        chk.sample({"kind": kind, "hex": data.hex()[:160]})
    if results and results[-1]:
        chk.sample({"decompiled_body": results[len(results) // 2]["fk"][:300] if results[len(results) // 2] else None})

    def search():
        for f in new_fail:
            return {"oracle": f.get("what"), **f}
        for m in mism:
            data = bytes.fromhex(m["hex"])
            why = vmcheck.oracle(data, want_value=want_value)
            if why and not any(chk.match_known(s) for s in classify(data)):
                return {"hex": m["hex"], "oracle": why["what"], **why}
        return None

    report_broken_obligations(chk, search)
    return chk.finish()


def replay(path, pid=PID, want_value=WANT_VALUE):
    doc = json.load(open(path))
    case = doc.get("case") or {}
    if "hex" not in case:
        print("replay: no concrete input recorded; re-running the quick check")
        return main("quick", doc.get("seed", 0))
    data = bytes.fromhex(case["hex"])
    why = vmcheck.oracle(data, want_value=want_value)
    if not why and want_value:
        why = vmcheck.plain_oracle(data) if case.get("kind") == "plain" else None
    if why:
        print(f"VIOLATION property={pid} replay={path}")
        print(json.dumps(why)[:2000])
        return 1
    print("replay: the recorded case no longer fails")
    return 0
