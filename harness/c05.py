"""C05 -- the decompiled program rebuilds the same value as the real pickle VM."""
from harness import c03, vmcheck


def plain_extra(chk, corpus):
    """plain data: decompilation succeeds and exec(result) equals the original object"""
    bad = []
    n = 0
    for kind, data, _ in corpus:
        if kind != "plain":
            continue
        n += 1
        why = vmcheck.timed(vmcheck.plain_oracle, data, default=None)    # hangs: reported by the correspondence
        if why:
            bad.append({"kind": "plain", "hex": data.hex(), **why})
    chk.stats["plain-data exec==original checked"] = n
    return bad


def layer_b(chk, corpus):
    """model evaluator (PyEval) vs the real exec of the real decompilation, same corpus"""
    import json
    seen, datas = set(), []
    for _, data, _ in corpus:
        if data not in seen:
            seen.add(data)
            datas.append(data)
    try:
        mism, st = vmcheck.correspond_pyeval(chk, datas)
    except RuntimeError as e:           # driver missing: the build obligation has already failed
        chk.oblige("correspondence (layer B): PyEval vs exec of the decompiled program", False, str(e))
        return []
    for k, v in st.items():
        chk.stats["layerB:" + k] = v
    chk.rule += (" (c) layer B: the extracted Coq evaluator PyEval on the model's decompilation vs "
                 "exec(ast.unparse(Pickled.load(data).ast)) under the same inert stand-ins, canonical value + "
                 "event log compared literally on every corpus program the model accepts; data-only programs "
                 "additionally re-observe C05_plain_data_eval (PyEval text == reference-VM model text)")
    chk.oblige(f"correspondence (layer B): model evaluator PyEval vs exec(ast.unparse(Pickled.load(data).ast)) "
               f"under inert stand-ins, value+events, {st['compared']} programs "
               f"({st['agree-OK-with-events']} with events; {st['data-only-theorem-instances']} data-only "
               f"instances of C05_plain_data_eval re-observed)", not mism, json.dumps(mism[:3]))
    # a disagreement is first examined with the model-free property oracle: a concrete failing input
    bad = []
    for m in mism[:50]:
        data = bytes.fromhex(m["hex"])
        why = vmcheck.timed(vmcheck.oracle, data, want_value=True, default=None)
        if why and not any(chk.match_known(s) for s in c03.classify(data)):
            bad.append({"kind": "layerB", "hex": m["hex"], **why})
    return bad


def extras(chk, corpus):
    return plain_extra(chk, corpus) + layer_b(chk, corpus)


def main(tier, seed):
    return c03.main(tier, seed, pid="C05", want_value=True, extra=extras,
                    build_targets=("proofs/SimProofs.vo", "proofs/PyEvalProofs.vo"))


def replay(path):
    return c03.replay(path, pid="C05", want_value=True)
