"""C05 -- the decompiled program rebuilds the same value as the real pickle VM."""
from harness import c03, vmcheck


def plain_extra(chk, corpus):
    """plain data: decompilation succeeds and exec(result) equals the original object"""
    bad = []
    n = 0
    for kind, data, _ in corpus:
        if kind != "plain":
            continue
        n += 1
        why = vmcheck.plain_oracle(data)
        if why:
            bad.append({"kind": "plain", "hex": data.hex(), **why})
    chk.stats["plain-data exec==original checked"] = n
    return bad


def main(tier, seed):
    return c03.main(tier, seed, pid="C05", want_value=True, extra=plain_extra)


def replay(path):
    return c03.replay(path, pid="C05", want_value=True)
