"""Child process of the C11 check: runs allowlist histories against the REAL fickling.hook / fickling.ml.

stdin : JSON job {"adds": [[dotted...]|null ...], "vocab": [[module, name]...], "histories": [[op...]...]}
        op = ["act", i] | "deact" | ["cons", j] | "pall" | "iall" | ["probe", k] | ["iprobe", i, k]
stdout: JSON {"base": {...}, "runs": [[step...]...]}

Every history runs in its OWN forked process (fork after the imports), so nothing -- in
particular no mutation of ML_ALLOWLIST -- is carried from one history into the next."""
import io
import json
import os
import pickle
import sys

ORIG_LOADS = pickle.loads

import fickling  # noqa: E402,F401
import fickling.hook as fhook  # noqa: E402
import fickling.ml as fml  # noqa: E402
from fickling.exception import UnsafeFileError  # noqa: E402
import verif_sink  # noqa: E402,F401


def snapshot():
    return {m: dict(d) for m, d in fml.ML_ALLOWLIST.items()}


def table_state(base):
    cur = fml.ML_ALLOWLIST
    same = (list(cur.keys()) == list(base.keys()) and all(cur[m] == base[m] for m in cur))
    delta = []
    for m, d in cur.items():
        changed = [n for n, msg in d.items() if m not in base or n not in base[m] or base[m][n] != msg]
        if changed:
            delta.append(f"{m}:{','.join(changed)}")
    missing = [m for m in base if m not in cur]
    if missing:
        delta.append("missing:" + ",".join(missing))
    return ("T" if same else "F") + "[" + ";".join(delta) + "]"


def glob_pickle(g):
    return b"c" + g[0].encode() + b"\n" + g[1].encode() + b"\n."


def env_probe(g):
    """a load of a pickle that resolves g through pickle.loads as currently bound"""
    if pickle.loads is ORIG_LOADS:
        ORIG_LOADS(glob_pickle(g))      # unmediated: resolves (nothing is called)
        return "U"
    try:
        pickle.loads(glob_pickle(g))
        return "A"
    except UnsafeFileError:
        return "B"
    except Exception:  # noqa: BLE001  allow-listed but e.g. not importable: still permitted
        return "A"


def inst_probe(inst, g):
    try:
        inst.find_class(g[0], g[1])
        return "A"
    except UnsafeFileError:
        return "B"
    except Exception:  # noqa: BLE001
        return "A"


def run_history(hist, adds, vocab, base):
    insts = []
    steps = []
    # ONE list object per kind of caller, reused and edited in place: by every "acts" activation, resp. by
    # every "conss" construction.  (Kept apart: an ACTIVE activation holds a reference to its caller's list,
    # so editing that very list while it is active is the caller changing the additions -- not tested here.)
    shared_act, shared_cons = [], []
    for op in hist:
        extra = None
        try:
            if op == "deact":
                fhook.deactivate_safe_ml_environment()
            elif op == "pall":
                extra = "".join(env_probe(g) for g in vocab)
            elif op == "iall":
                extra = "/".join("".join(inst_probe(i, g) for g in vocab) for i in insts)
            elif op[0] == "act":
                a = adds[op[1]]
                fhook.activate_safe_ml_environment(also_allow=None if a is None else list(a))
            elif op[0] == "cons":
                a = adds[op[1]]
                insts.append(fml.FicklingMLUnpickler(io.BytesIO(b"N."), also_allow=None if a is None else list(a)))
            elif op[0] == "acts":
                shared_act[:] = adds[op[1]] or []
                fhook.activate_safe_ml_environment(also_allow=shared_act)
            elif op[0] == "conss":
                shared_cons[:] = adds[op[1]] or []
                insts.append(fml.FicklingMLUnpickler(io.BytesIO(b"N."), also_allow=shared_cons))
            elif op[0] == "probe":
                extra = env_probe(vocab[op[1]])
            elif op[0] == "iprobe":
                extra = inst_probe(insts[op[1]], vocab[op[2]]) if op[1] < len(insts) else "N"
            else:
                raise ValueError(op)
            line = table_state(base)
            if extra is not None:
                line += ";" + extra
        except BaseException as e:  # noqa: BLE001
            line = f"!{type(e).__name__}: {e}"
        steps.append(line)
    return steps


def observe_split(s):
    """which (module, name) pairs does the ONE addition string s permit?  Behavioural: every cut of s at a
    dot (and the same name in the parent module) is offered to find_class of an unpickler constructed with
    also_allow=[s]; UnsafeFileError = refused, anything else (the import of a made-up module failing) = permitted.
    Returns the sorted list of permitted cut positions (-1 = the parent-module candidate), or ERR:<type> if
    the constructor raises."""
    import io
    import fickling.ml as fml
    from fickling.exception import UnsafeFileError
    try:
        u = fml.FicklingMLUnpickler(io.BytesIO(b"N."), also_allow=[s])
    except BaseException as e:  # noqa: BLE001
        return "ERR:" + type(e).__name__
    cands = [(i, s[:i], s[i + 1:]) for i, c in enumerate(s) if c == "."]
    if cands:
        i, m, n = cands[-1]
        if "." in m:
            cands.append((-1, m.rsplit(".", 1)[0], n))
    out = []
    for i, m, n in cands:
        if n in fml.ML_ALLOWLIST.get(m, ()):
            continue                       # permitted by the built-in table, whatever the addition
        try:
            u.find_class(m, n)
            out.append(i)
        except UnsafeFileError:
            pass
        except BaseException:  # noqa: BLE001
            out.append(i)
    return sorted(out)


def observe_mlan(hexes, adds):
    """the static analysis that consults the table (ml.MLAllowlist run alone through check_safety) on every
    pickle: before any activation, while an environment with additions is active, after deactivation"""
    import fickling.hook as fhook
    from fickling.analysis import Analyzer
    from fickling.ml import MLAllowlist
    sys.path.insert(0, os.path.dirname(os.path.dirname(os.path.abspath(__file__))))
    from harness import anlib
    datas = [bytes.fromhex(h) for h in hexes]

    def sweep():
        return [anlib.real_analyze(d, analyzer=Analyzer([MLAllowlist()])) for d in datas]

    out = {"fresh": sweep()}
    fhook.activate_safe_ml_environment(also_allow=list(adds))
    try:
        out["active"] = sweep()
    finally:
        fhook.deactivate_safe_ml_environment()
    out["after"] = sweep()
    return out


def main():
    job = json.loads(sys.stdin.read())
    if "mlan" in job:
        sys.stdout.write(json.dumps({"mlan": observe_mlan(job["mlan"], job["adds"])}) + "\n")
        return
    if "splits" in job:
        sys.stdout.write(json.dumps({"splits": [observe_split(s) for s in job["splits"]]}) + "\n")
        return
    adds, vocab = job["adds"], [tuple(v) for v in job["vocab"]]
    for m in sorted({v[0] for v in vocab}):          # pre-import so that forks are cheap
        try:
            __import__(m)
        except Exception:  # noqa: BLE001
            pass
    base = snapshot()
    runs = []
    for hist in job["histories"]:
        r, w = os.pipe()
        pid = os.fork()
        if pid == 0:
            try:
                os.close(r)
                out = json.dumps(run_history(hist, adds, vocab, base)).encode()
                with os.fdopen(w, "wb") as f:
                    f.write(out)
            finally:
                os._exit(0)
        os.close(w)
        with os.fdopen(r, "rb") as f:
            data = f.read()
        os.waitpid(pid, 0)
        runs.append(json.loads(data) if data else ["!child died"])
    sys.stdout.write(json.dumps({"base": {m: sorted(d) for m, d in base.items()}, "runs": runs}) + "\n")


if __name__ == "__main__":
    main()
