"""C19 -- safety analysis is total on every pickle that decompiles: a verdict, findings with severity and
message, a JSON-serialisable report, and the same report inside the loader's UnsafeFileError."""
import io
import json
import os
import shutil
import sys
from concurrent.futures import ProcessPoolExecutor

from harness import anlib, asm, progs, vmlib
from harness.common import BUILD, Check, Driver, report_broken_obligations, sx, wire

SCRATCH_ROOT = os.path.join(BUILD, "scratch")


# ------------------------------------------------------------------ vocabulary read from the live code
def live_vocabulary():
    """(modules by category, attribute names incl. every name a rule special-cases), read from the live tables"""
    from fickling import analysis, fickle
    import fickling.ml as ml

    def str_tuples(fn):
        out = []
        for c in fn.__code__.co_consts:
            if isinstance(c, (tuple, frozenset)) and c and all(isinstance(x, str) for x in c):
                out += list(c)
        return out

    um = list(analysis.UnsafeImportsML.UNSAFE_MODULES)
    ui = analysis.UnsafeImportsML.UNSAFE_IMPORTS
    pickled_unsafe = str_tuples(fickle.Pickled.unsafe_imports)
    obe = [c[:-1] for c in analysis.OvertlyBadEvals.analyze.__code__.co_consts
           if isinstance(c, str) and c.endswith("(")]
    allow = ml.ML_ALLOWLIST
    allow_mods = sorted(allow)[:3] + [m for m in ("collections", "numpy.core.multiarray", "torch._utils") if m in allow]
    mods = {
        "builtins": list(vmlib.BUILTINS_MODULES),
        "dangerous": sorted(set(um) - set(vmlib.BUILTINS_MODULES)) + ["os.path", "urllib.request", "dill._dill",
                                                                    "torch.hub.x", "sys.monitoring"],
        "pickled_unsafe": sorted(set(pickled_unsafe) - set(um) - set(vmlib.BUILTINS_MODULES)),
        "per_name": list(ui),
        "per_name_sub": [m + ".sub" for m in ui] + ["operators", "torch.storagex"],
        "benign": ["collections", "math", "io", "importlib", "functools", "datetime"],
        "allowlisted": allow_mods,
        "nonstd": ["verif_sink", "mypkg.sub", "foo", "evaluate", "from"],
    }
    special = list(analysis.BadCalls.BAD_CALLS) + obe + ["eval"]
    for d in ui.values():
        special += list(d)
    names = []
    for n in special + ["__setstate__", "update", "persistent_load", "UNPICKLER", "result", "_var0", "_var1",
                        "frozenset", "from", "evaluate", "evalx", "open_", "getattr", "__import__", "globals",
                        "system", "getcwd", "record", "Thing", "OrderedDict", "_reconstruct", "pow", "names"]:
        if n not in names:
            names.append(n)
    for m in allow_mods:                      # an allow-listed name and a non-allow-listed one per module
        for n in list(allow[m])[:1]:
            if n not in names:
                names.append(n)
    return mods, names, special


USAGES = ["import", "import_pop", "REDUCE", "REDUCE_long", "OBJ", "NEWOBJ", "NEWOBJ_EX", "REDUCE_build", "REDUCE_pop"]
LONG = "x" * 40


def grid_program(m, a, resolve, usage, rng):
    prog = []
    r = rng.random()
    if r < 0.15:
        prog += [("PROTO", 2), ("PROTO", 2)]
    elif r < 0.25:
        prog += [("PROTO", 1), ("BININT1", 1), "POP", ("PROTO", 3), ("PROTO", 1)]
    elif r < 0.5:
        prog += [("PROTO", rng.choice([0, 2, 4]))]
    if resolve == "GLOBAL":
        res = [("GLOBAL", (m, a))]
    else:
        res = [("SHORT_BINUNICODE", m), ("SHORT_BINUNICODE", a), "STACK_GLOBAL"]
    arg = ("BINUNICODE", LONG) if usage == "REDUCE_long" else rng.choice([("SHORT_BINUNICODE", "1+1"), ("BININT1", 3)])
    if resolve == "INST":
        prog += ["MARK", arg, ("INST", (m, a))]
        if usage in ("import_pop", "REDUCE_pop"):
            prog += ["POP", "NONE"]
        elif usage == "REDUCE_build":
            prog += ["EMPTY_DICT", "BUILD"]
    elif usage == "import":
        prog += res
    elif usage == "import_pop":
        prog += res + ["POP", "NONE"]
    elif usage in ("REDUCE", "REDUCE_long"):
        prog += res + ["MARK", arg, "TUPLE", "REDUCE"]
    elif usage == "REDUCE_build":
        prog += res + [arg, "TUPLE1", "REDUCE", "NONE", "BUILD"]
    elif usage == "REDUCE_pop":
        prog += res + [arg, "TUPLE1", "REDUCE", "POP", ("BININT1", 0)]
    elif usage == "OBJ":
        prog += ["MARK"] + res + [arg, "OBJ"]
    elif usage == "NEWOBJ":
        prog += res + [arg, "TUPLE1", "NEWOBJ"]
    elif usage == "NEWOBJ_EX":
        prog += res + [arg, "TUPLE1", "EMPTY_DICT", "NEWOBJ_EX"]
    prog.append("STOP")
    return asm.assemble(prog)


def build_corpus(chk, tier):
    rng = chk.rng
    mods, names, special = live_vocabulary()
    corpus = []
    variants = [(r, u) for r in ("GLOBAL", "STACK_GLOBAL") for u in USAGES] + \
               [("INST", u) for u in ("REDUCE", "REDUCE_long", "REDUCE_pop", "REDUCE_build")]
    per = 2 if tier == "quick" else len(variants)
    for cat, ms in mods.items():
        for m in ms:
            for a in names:
                # every special-cased name: imported-only and imported-and-called at least once each
                vs = rng.sample(variants, per)
                if a in special and tier == "quick":
                    vs = [(rng.choice(["GLOBAL", "STACK_GLOBAL"]), "import"),
                          (rng.choice(["GLOBAL", "STACK_GLOBAL", "INST"]), "REDUCE")] + vs[:1]
                for resolve, usage in vs:
                    corpus.append((f"grid/{cat}/{'special' if a in special else 'plain'}/{resolve}/{usage}",
                                   grid_program(m, a, resolve, usage, rng)))
    n = (1200, 400) if tier == "quick" else (30000, 10000)
    for _ in range(n[0]):
        corpus.append(("random", asm.assemble(progs.random_typed(rng))))
    for _ in range(n[1]):
        corpus.append(("natural", progs.natural_pickle(rng)[0]))
    for prog in progs.enumerate_typed(3):
        corpus.append(("exhaustive", asm.assemble(prog)))
    return corpus


# ------------------------------------------------------------------ real side (worker processes)
def canon(obj):
    """canonical text of a JSON-able value, the format of DispatchAnalysis.show_json"""
    if isinstance(obj, bool) or obj is None:
        return "(OPAQUE %s)" % wire(repr(obj))
    if isinstance(obj, str):
        return wire(obj)
    if isinstance(obj, int):
        return "i%d" % obj
    if isinstance(obj, (list, tuple)):
        return "(" + " ".join(["L"] + [canon(x) for x in obj]) + ")"
    if isinstance(obj, dict):
        if not all(isinstance(k, str) for k in obj):
            return "(OPAQUE %s)" % wire("non-string key")
        return "(" + " ".join(["D"] + sorted("(%s %s)" % (wire(k), canon(v)) for k, v in obj.items())) + ")"
    return "(OPAQUE %s)" % wire(type(obj).__name__)


_SCRATCH = None


def _worker_init(root):
    """the loader's final pickle.loads must never run a generated pickle for real"""
    global _SCRATCH
    import pickle
    import _pickle
    _SCRATCH = os.path.join(root, str(os.getpid()))
    os.makedirs(_SCRATCH, exist_ok=True)

    def inert_loads(*a, **k):
        return "LOADED-INERT"

    pickle.loads = inert_loads
    pickle.load = inert_loads
    _pickle.loads = inert_loads
    _pickle.load = inert_loads


def observe(data):
    """everything the property talks about, on the real implementation.
    -> dict(status, real=<canonical text or None>, fail=<oracle verdict or None>, sev)"""
    import ast
    import fickling
    from fickling.analysis import Severity, check_safety
    from fickling.exception import UnsafeFileError
    from fickling.fickle import Pickled
    try:
        p = Pickled.load(data)
    except Exception:
        return {"status": "PARSE-ERR"}
    try:
        mod = p.ast
    except RecursionError:
        return {"status": "RECURSION"}
    except Exception:
        return {"status": "ERR"}                       # does not decompile: outside the property
    try:
        ast.unparse(mod)
    except Exception:
        return {"status": "RECURSION"}                 # cyclic / too deep to print: outside the property
    jpath = os.path.join(_SCRATCH, "report.json")
    for f in (jpath, jpath + ".2"):
        if os.path.exists(f):
            os.unlink(f)
    fail = None
    try:
        res = check_safety(p, json_output_path=jpath)
        sev = res.severity
        rep = res.to_dict()
    except RecursionError:
        return {"status": "RECURSION"}
    except Exception as e:
        return {"status": "RAISED", "real": f"RAISED {type(e).__name__}",
                "fail": f"the safety check raised {type(e).__name__}: {e} on a pickle that decompiles"}
    fs = []
    for r in res.results:
        okmsg = isinstance(r.message, str) and r.message != ""
        oksev = isinstance(r.severity, Severity)
        if not (okmsg and oksev) and fail is None:
            fail = (f"finding of {r.analysis_name} has severity {r.severity!r} and message {r.message!r}")
        fs.append("(%s %s %s %s)" % (r.analysis_name, r.severity.name if oksev else "?",
                                    wire(r.message) if isinstance(r.message, str) else "NOMSG",
                                    "NONE" if r.trigger is None else canon(r.trigger)))
    if not isinstance(sev, Severity) and fail is None:
        fail = f"verdict {sev!r} is not a Severity"
    try:
        text = json.dumps(rep)
        rep_rt = json.loads(text)
    except Exception as e:
        rep_rt = None
        if fail is None:
            fail = f"to_dict() is not JSON-serialisable: {type(e).__name__}: {e}"
    filed = None
    try:
        with open(jpath) as f:
            filed = json.load(f)
    except Exception as e:
        if fail is None:
            fail = f"json_output_path file unreadable: {type(e).__name__}: {e}"
    if fail is None and filed != rep_rt:
        fail = "the report written to json_output_path differs from to_dict()"
    outcome = "LOADED"
    if isinstance(sev, Severity) and sev > Severity.LIKELY_SAFE:
        try:
            fickling.load(io.BytesIO(data), json_output_path=jpath + ".2")
        except UnsafeFileError as e:
            outcome = "UNSAFE " + canon(e.info)
            if fail is None and not (e.info == rep):
                fail = "UnsafeFileError.info differs from results.to_dict()"
        except Exception as e:
            outcome = f"RAISED {type(e).__name__}"
            if fail is None:
                fail = f"the checked loader raised {type(e).__name__}: {e} instead of UnsafeFileError"
    # the verdict is asked a second and a third time on the SAME object (plain, then with a report file
    # again): the check must answer every time, with the same report (seeded change C19 r5: a cached
    # interpreter released after the first analysis)
    if fail is None:
        for again, kw in (("second", {}), ("third", {"json_output_path": jpath + ".3"})):
            try:
                if os.path.exists(jpath + ".3"):
                    os.unlink(jpath + ".3")
                rep2 = check_safety(p, **kw).to_dict()
            except RecursionError:
                break
            except Exception as e:
                fail = (f"the {again} safety check of the same Pickled object raised {type(e).__name__}: {e} "
                        f"(the first one answered {getattr(sev, 'name', sev)})")
                break
            if rep2 != rep:
                fail = f"the {again} safety check of the same Pickled object reports {canon(rep2)}, the first {canon(rep)}"
                break
    try:
        every = " ; ".join(canon(res.to_dict(v)) for v in Severity)
    except Exception as e:
        every = f"RAISED {type(e).__name__}"
        if fail is None:
            fail = f"to_dict(verbosity) raised {type(e).__name__}: {e}"
    real = "OK %s | %s | %s | %s | %s | %s" % (
        sev.name if isinstance(sev, Severity) else "?", " ".join(sorted(fs)), canon(rep),
        canon(filed) if filed is not None else "NOFILE", outcome, every)
    try:        # iteration order of the `defined - used` set behind the UnusedVariables findings
        from fickling.fickle import Interpreter
        order = list(Interpreter(p).unused_assignments().keys())
    except Exception:
        order = []
    return {"status": "OK", "real": real, "fail": fail, "unused_order": order, "sev": getattr(sev, "name", "?"), "nfind": len(fs),
            "kinds": sorted({type(r.trigger).__name__ for r in res.results})}


def _batch(batch):
    out = []
    for d in batch:
        try:
            ob = observe(d)
        except RecursionError:
            ob = {"status": "RECURSION"}
        if ob["status"] in ("OK", "RAISED", "ERR"):
            try:
                mi = anlib.model_inputs(d)
            except Exception:
                mi = None
            if mi is not None:
                ob["q"] = sx(["report", *mi, [wire(v) for v in ob.get("unused_order", [])]])
        out.append(ob)
    return out


def pmap(fn, datas, root, B=200):
    batches = [datas[i:i + B] for i in range(0, len(datas), B)]
    with ProcessPoolExecutor(max_workers=14, initializer=_worker_init, initargs=(root,)) as ex:
        return [r for rs in ex.map(fn, batches) for r in rs]


def oracle(data, root):
    """model-free property oracle on one input (in a child, because the loader is made inert there)"""
    with ProcessPoolExecutor(max_workers=1, initializer=_worker_init, initargs=(root,)) as ex:
        ob = ex.submit(observe, data).result()
    return ob.get("fail")


def main(tier, seed):
    chk = Check("C19", tier, seed)
    chk.rule = ("grid: module category (builtins aliases / every UNSAFE_MODULES key and submodules / Pickled.unsafe_imports "
                "tuple / every UNSAFE_IMPORTS module and near-misses / benign stdlib / ML-allowlisted / non-stdlib) x "
                "attribute name (every name a rule special-cases -- BAD_CALLS, OvertlyBadEvals prefixes, UNSAFE_IMPORTS "
                "names, eval -- read from the live tables, plus fickling's own identifiers and plain names) x "
                "GLOBAL / STACK_GLOBAL / INST x imported-only / popped / called by REDUCE, OBJ, NEWOBJ, NEWOBJ_EX "
                "(short and >32-character texts, BUILD-ed, popped) x PROTO framing incl. duplicate and misplaced PROTO; "
                "plus random typed programs, natural pickles, bounded-exhaustive programs. Real side per program that "
                "decompiles and unparses: check_safety with json_output_path, every finding, json.dumps(to_dict()), "
                "fickling.load on flagged pickles (final pickle.loads made inert). Compared with the extracted model: "
                "verdict, every finding (name, severity, message text, trigger), to_dict(), the JSON file, the loader "
                "outcome and UnsafeFileError.info. non-trivial = distinct flagged program with at least one finding")
    built = chk.regen_and_build(["proofs/ReportProofs.vo"])
    if built:
        chk.prove()
    root = os.path.join(SCRATCH_ROOT, str(os.getpid()))
    os.makedirs(root, exist_ok=True)
    try:
        corpus = build_corpus(chk, tier)
        for k in chk.known:
            if k.get("replay", {}).get("hex") and k.get("property") in ("C19", "C04"):
                corpus.insert(0, ("known:" + k["id"], bytes.fromhex(k["replay"]["hex"])))
        datas = [d for _, d in corpus]
        obs = pmap(_batch, datas, root)
        mism, ncmp = [], 0
        if built:
            idx = [i for i, o in enumerate(obs) if "q" in o]
            out = Driver().query([obs[i]["q"] for i in idx])
            for j, i in enumerate(idx):
                o, model = obs[i], out[j]
                if model.startswith("ERR Unmodelled"):
                    continue
                if o["status"] == "ERR":
                    if not model.startswith("ERR"):
                        mism.append({"kind": corpus[i][0], "hex": corpus[i][1].hex(), "real": "ERR", "model": model[:300]})
                    continue
                ncmp += 1
                if model != o["real"]:
                    r = o["real"]
                    k = next((x for x in range(min(len(r), len(model))) if r[x] != model[x]), min(len(r), len(model)))
                    mism.append({"kind": corpus[i][0], "hex": corpus[i][1].hex(), "first_difference_at": k,
                                 "real": r[max(0, k - 150):k + 150], "model": model[max(0, k - 150):k + 150]})
            chk.oblige(f"correspondence: report model vs check_safety / to_dict / json file / fickling.load "
                       f"(verdict, findings with messages and triggers, report, UnsafeFileError.info), {ncmp} programs",
                       not mism, json.dumps(mism[:3])[:4000])
        fails = []
        seen = set()
        for (kind, data), o in zip(corpus, obs):
            chk.count()
            lab = "/".join(kind.split("/")[:3]) if kind.startswith("grid") else kind.split(":")[0]
            chk.stats[lab] = chk.stats.get(lab, 0) + 1
            chk.stats["status:" + o["status"]] = chk.stats.get("status:" + o["status"], 0) + 1
            if o["status"] == "OK":
                chk.stats["verdict:" + o["sev"]] = chk.stats.get("verdict:" + o["sev"], 0) + 1
                for kd in o.get("kinds", []):
                    chk.stats["trigger:" + kd] = chk.stats.get("trigger:" + kd, 0) + 1
                if o["nfind"] and data not in seen:
                    seen.add(data)
                    chk.nontriv(data.hex())
            if o.get("fail"):
                fails.append({"kind": kind, "hex": data.hex(), "oracle": o["fail"]})
        fails.sort(key=lambda f: len(f["hex"]))
        chk.oblige(f"property oracle on the real code: verdict returned, findings well formed, report serialisable, "
                   f"file and UnsafeFileError.info equal to_dict(), {len(datas)} programs", not fails,
                   json.dumps(fails[:2])[:2000])
        for i in (0, len(corpus) // 3, len(corpus) // 2):
            chk.sample({"kind": corpus[i][0], "hex": corpus[i][1].hex()[:160], "real": (obs[i].get("real") or obs[i]["status"])[:300]})

        def search():
            for f in fails:
                return f
            for m in mism:
                why = oracle(bytes.fromhex(m["hex"]), root)
                if why:
                    return {"hex": m["hex"], "oracle": why, "kind": m["kind"]}
            return None

        report_broken_obligations(chk, search)
        return chk.finish()
    finally:
        shutil.rmtree(root, ignore_errors=True)


def replay(path):
    doc = json.load(open(path))
    case = doc.get("case") or {}
    if "hex" not in case:
        print("replay: no concrete input recorded; re-running the quick check")
        return main("quick", doc.get("seed", 0))
    root = os.path.join(SCRATCH_ROOT, str(os.getpid()))
    os.makedirs(root, exist_ok=True)
    try:
        why = oracle(bytes.fromhex(case["hex"]), root)
    finally:
        shutil.rmtree(root, ignore_errors=True)
    if why:
        print(f"VIOLATION property=C19 replay={path}")
        print(json.dumps({"hex": case["hex"], "oracle": why}))
        return 1
    print("replay: the recorded case no longer fails")
    return 0
