"""Harmless sink used as a non-standard-library, non-allow-listed global by the harness."""
LOG = []


def record(*args, **kwargs):
    LOG.append(("record", args, tuple(sorted(kwargs.items()))))
    return ("sink-result", len(LOG))


class Thing:
    def __init__(self, *args):
        LOG.append(("Thing", args))
        self.args = args

    def __setstate__(self, state):
        LOG.append(("setstate", state))
        self.state = state

    def __eq__(self, other):
        return isinstance(other, Thing) and self.args == other.args and \
            getattr(self, "state", None) == getattr(other, "state", None)

    def __hash__(self):
        return 1


def reset():
    del LOG[:]
