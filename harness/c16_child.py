"""C16 child process: everything that needs torch / fickling.pytorch runs here, once per check run.

Usage:  python c16_child.py <job.json>     (job: mode, scratch, tier, seed, n | case)
Writes <scratch>/result.json.  No dependency on harness.common (the parent imports this module for the
case generator and the model-free oracle; torch is imported lazily).  Every payload is a call of the
harmless sink `verif_sink.record`."""
import contextlib
import hashlib
import io
import json
import os
import random
import shutil
import sys
import warnings
import zipfile

KINDS = ["module_linear", "module_seq", "module_buffers", "state_dict", "nested", "tensor", "zero_size",
         "shared", "dtypes", "noncontig", "big_nested", "big_tensor", "many_memo"]
REFUSALS = ["legacy_pickle", "unrecognised_zip", "model_archive", "junk_mar_data_pkl"]


# ---------------------------------------------------------------- cases
def payload_for(rng, tag):
    """payload strings: every one calls the sink exactly once with `tag` first"""
    forms = [
        lambda: f"import verif_sink; verif_sink.record({tag})",
        lambda: f"import verif_sink\nverif_sink.record({tag}, 'text')",
        lambda: f"import verif_sink; verif_sink.record({tag}, 'é中', '\U0001F600')",
        lambda: f"import verif_sink; verif_sink.record({tag}, \"q'q\", 'd\"d')",
        lambda: f"import verif_sink; verif_sink.record({tag}, 'back\\\\slash', 'nl\\n\\t')",
        lambda: f"import verif_sink; verif_sink.record({tag})" + " " * rng.choice([200, 255, 256, 300]),
        lambda: f"import verif_sink; verif_sink.record({tag})  # " + "x" * rng.choice([65500, 70000]),
        lambda: f"from verif_sink import record as r\nfor _ in range(1):\n    r({tag}, k=2)\n",
        lambda: f"import verif_sink as v;v.record({tag},{rng.randrange(-2**40, 2**40)},{rng.random()!r})",
        lambda: f"\n\nimport verif_sink ;  verif_sink . record ( {tag} , [1, (2, 3)], {{'a': None}} )\n",
    ]
    return rng.choice(forms)()


def gen_cases(rng, n):
    cases = []
    k = 0
    # the first injections of the process climb a length ladder (<= 255, <= 65535, > 65535 bytes, short again):
    # each payload length class uses another length-prefixed opcode, and anything the encoders remember from an
    # earlier, shorter payload must not leak into a later, longer one (seeded change C16 r5)
    base = "import verif_sink; verif_sink.record(%d)"
    for pad in (0, 300, 70000, 0, 255 - len(base % 3), 256 - len(base % 4)):
        cases.append({"kind": KINDS[k % len(KINDS)], "oseed": 7000 + k, "payload": (base % k) + " " * pad,
                      "tag": k, "overwrite": bool(k % 2), "out_exists": False})
        k += 1
    # every kind x both overwrite settings first, then random combinations
    for kind in KINDS:
        for ov in (False, True):
            cases.append({"kind": kind, "oseed": rng.randrange(10**6), "payload": payload_for(rng, k),
                          "tag": k, "overwrite": ov, "out_exists": False})
            k += 1
    while len(cases) < n:
        cases.append({"kind": rng.choice(KINDS), "oseed": rng.randrange(10**6), "payload": payload_for(rng, k),
                      "tag": k, "overwrite": rng.random() < 0.5, "out_exists": rng.random() < 0.2})
        k += 1
    return cases


def extra_cases():
    """refusal paths (validation before touching anything) and the two-data.pkl observation"""
    out = []
    for i, kind in enumerate(REFUSALS):
        for ov in (False, True):
            out.append({"kind": kind, "oseed": i, "payload": f"import verif_sink; verif_sink.record({900 + i})",
                        "tag": 900 + i, "overwrite": ov, "out_exists": False, "refusal": True})
    # history: the SAME input file was already injected (through other, fresh wrappers, overwrite off)
    # earlier in this process -- the result must still be a function of the input file alone
    for j, (rep, ov) in enumerate([(1, False), (2, False), (1, True)]):
        out.append({"kind": KINDS[j % len(KINDS)], "oseed": 40 + j,
                    "payload": f"import verif_sink; verif_sink.record({970 + j})", "tag": 970 + j,
                    "overwrite": ov, "out_exists": False, "repeat": rep})
    out.append({"kind": "two_data_pkl", "oseed": 1, "payload": "import verif_sink; verif_sink.record(950)",
                "tag": 950, "overwrite": False, "out_exists": False, "observation": True})
    out.append({"kind": "torchscript", "oseed": 1, "payload": "import verif_sink; verif_sink.record(960)",
                "tag": 960, "overwrite": False, "out_exists": False, "archive_only": True})
    return out


def make_obj(kind, oseed):
    import torch
    g = torch.Generator().manual_seed(oseed)
    r = random.Random(oseed)
    torch.manual_seed(oseed)

    def rt(*shape, dtype=torch.float32):
        if dtype in (torch.float32, torch.float64, torch.float16, torch.bfloat16):
            return torch.randn(*shape, generator=g).to(dtype)
        if dtype == torch.bool:
            return torch.randint(0, 2, shape, generator=g).bool()
        if dtype == torch.complex64:
            return torch.complex(torch.randn(*shape, generator=g), torch.randn(*shape, generator=g))
        return torch.randint(0, 100, shape, generator=g).to(dtype)

    if kind == "module_linear":
        return torch.nn.Linear(r.randrange(1, 6), r.randrange(1, 6), bias=r.random() < 0.7)
    if kind == "module_seq":
        return torch.nn.Sequential(torch.nn.Conv2d(1, 2, 3), torch.nn.ReLU(), torch.nn.Flatten(),
                                   torch.nn.Linear(r.randrange(2, 5), 2))
    if kind == "module_buffers":
        m = torch.nn.Sequential(torch.nn.Linear(3, 4), torch.nn.BatchNorm1d(4), torch.nn.Embedding(5, 2))
        m[1].running_mean += 1.5
        return m
    if kind == "state_dict":
        return torch.nn.Sequential(torch.nn.Linear(3, 4), torch.nn.BatchNorm1d(4)).state_dict()
    if kind == "nested":
        return {"l": [rt(2, 3), (rt(4, dtype=torch.float64), "text", 7)], "t": (rt(1, 1, 2), [rt(3, dtype=torch.int64)]),
                "n": None, "d": {"inner": rt(2, dtype=torch.uint8), 5: 1.5}}
    if kind == "tensor":
        return rt(r.randrange(1, 9), r.randrange(1, 5))
    if kind == "zero_size":
        return {"empty": torch.zeros(0), "empty2d": torch.zeros(0, 3, dtype=torch.int64), "scalar": torch.tensor(3.5),
                "w": rt(2, 2)}
    if kind == "shared":
        base = rt(10)
        return {"a": base, "again": base, "view": base[2:7], "other": rt(3), "lst": [base[::2], base]}
    if kind == "dtypes":
        dts = [torch.float32, torch.float64, torch.float16, torch.bfloat16, torch.int64, torch.int32, torch.int16,
               torch.int8, torch.uint8, torch.bool, torch.complex64]
        return {str(d): rt(r.randrange(1, 5), dtype=d) for d in dts}
    if kind == "noncontig":
        x = rt(4, 6)
        return [x.t(), x[:, ::2], x[1:3, 2:5], x.unsqueeze(0).expand(2, 4, 6)]
    if kind == "big_tensor":
        return {"emb": rt(r.choice([48, 64, 100]), 70), "ids": rt(5000, dtype=torch.int64)}
    if kind == "many_memo":
        # more than 256 memo entries in data.pkl (LONG_BINPUT / LONG_BINGET indices): 48+ tensors
        return {f"layer{i}.{p}": rt(r.randrange(1, 3), r.randrange(1, 3)) for i in range(30) for p in ("w", "b")}
    if kind == "big_nested":
        return [{"i": i, "w": rt(r.randrange(1, 4), r.randrange(1, 4)), "tags": ["a" * i, (i, None)]} for i in range(12)]
    raise ValueError(kind)


def build_input(case, path):
    import torch
    kind = case["kind"]
    if kind == "legacy_pickle":
        torch.save({"w": torch.ones(2)}, path, _use_new_zipfile_serialization=False)
        return None
    if kind == "unrecognised_zip":
        with zipfile.ZipFile(path, "w") as z:
            z.writestr("blob/readme.txt", b"nothing to see")
        return None
    if kind == "model_archive":
        with zipfile.ZipFile(path, "w") as z:
            z.writestr("MAR-INF/MANIFEST.json", b"{}")
            z.writestr("handler.py", b"pass\n")
            z.writestr("weights.pt", b"w")
        return None
    if kind == "junk_mar_data_pkl":
        # identified as something (a model archive) but NOT as PyTorch v1.3 -- the zip does not start at
        # offset 0 -- yet it opens as a zip and has a */data.pkl member: everything the insertion code
        # needs after validation, so only validation keeps it out
        import pickle
        buf = io.BytesIO()
        with zipfile.ZipFile(buf, "w") as z:
            z.writestr("MAR-INF/MANIFEST.json", b"{}")
            z.writestr("handler.py", b"pass\n")
            z.writestr("weights.pt", b"w")
            z.writestr("model/data.pkl", pickle.dumps({"w": [1, 2, 3]}, protocol=2))
            z.writestr("model/version", b"3\n")
        with open(path, "wb") as f:
            f.write(b"#!leading junk\n" + buf.getvalue())
        return None
    if kind == "two_data_pkl":
        obj = {"w": torch.arange(3.0)}
        torch.save(obj, path)
        import pickle
        with zipfile.ZipFile(path, "a") as z:
            z.writestr("second/data.pkl", pickle.dumps({"second": [1, 2, 3]}, protocol=2))
            z.writestr("second/version", b"3\n")
        return obj
    if kind == "torchscript":
        class Tiny(torch.nn.Module):
            def __init__(self):
                super().__init__()
                self.l = torch.nn.Linear(2, 2)

            def forward(self, x):
                return self.l(x) * 2

        with warnings.catch_warnings():
            warnings.simplefilter("ignore")
            torch.jit.save(torch.jit.script(Tiny()), path)
        return None
    obj = make_obj(kind, case["oseed"])
    torch.save(obj, path)
    return obj


# ---------------------------------------------------------------- canonical views
def sha(b):
    return hashlib.sha256(b).hexdigest()


def members(path):
    """ordered (name, bytes) of a zip, or None"""
    try:
        with zipfile.ZipFile(path) as z:
            return [(i.filename, z.read(i)) for i in z.infolist()]
    except Exception:  # noqa
        return None


def listing(root):
    out = {}
    for d, dirs, files in os.walk(root):
        for x in dirs:
            out[os.path.relpath(os.path.join(d, x), root)] = "d"
        for x in files:
            p = os.path.join(d, x)
            out[os.path.relpath(p, root)] = sha(open(p, "rb").read())
    return out


def canon(obj):
    """a comparable description of a loaded / original object: structure, dtypes, shapes, values, and the
    sharing pattern (object identity and storage identity) among its tensors"""
    import torch
    tensors = []

    def go(x):
        if isinstance(x, torch.nn.Module):
            return ["module", type(x).__module__ + "." + type(x).__qualname__, x.training,
                    go(dict(x.state_dict(keep_vars=True))), [go(c) for c in x.children()]]
        if isinstance(x, torch.Tensor):
            tensors.append(x)
            raw = x.detach().contiguous().reshape(-1).view(torch.uint8) if x.numel() and not x.is_complex() else None
            if x.is_complex() and x.numel():
                raw = torch.view_as_real(x.detach()).contiguous().reshape(-1).view(torch.uint8)
            return ["tensor", type(x).__name__, str(x.dtype), list(x.shape), list(x.stride()), x.requires_grad,
                    sha(bytes(raw.flatten().tolist())) if raw is not None else "empty"]
        if isinstance(x, dict):
            return ["dict", type(x).__name__, [[go(k), go(v)] for k, v in x.items()]]
        if isinstance(x, (list, tuple)):
            return [type(x).__name__, [go(v) for v in x]]
        return ["atom", type(x).__name__, repr(x)]

    tree = go(obj)
    ids, stor = {}, {}
    share = []
    for t in tensors:
        a = ids.setdefault(id(t), len(ids))
        try:
            sp = t.untyped_storage().data_ptr() if t.numel() else ("empty", id(t))
        except Exception:  # noqa
            sp = ("none", id(t))
        s = stor.setdefault(sp, len(stor))
        share.append([a, s, t.storage_offset()])
    return {"tree": tree, "sharing": share}


# ---------------------------------------------------------------- observing the implementation
def observe(case, workdir, tag):
    import torch
    import verif_sink
    import fickling.polyglot as poly
    from fickling.fickle import Pickled
    from fickling.pytorch import PyTorchModelWrapper

    d = os.path.join(workdir, tag)
    os.makedirs(os.path.join(d, "in"))
    os.makedirs(os.path.join(d, "cwd"))
    in_path = os.path.join(d, "in", "model.pt")
    out_rel = "injected_out.pt"
    out_path = os.path.join(d, "cwd", out_rel)
    open(os.path.join(d, "cwd", "keep.txt"), "wb").write(b"bystander\n")
    if case.get("out_exists"):
        open(out_path, "wb").write(b"stale output that will be replaced")
    obj = build_input(case, in_path)
    in_bytes = open(in_path, "rb").read()
    in_members = members(in_path)
    so = io.StringIO()
    for j in range(case.get("repeat", 0)):
        pre = d + "_pre"            # outside the observed tree; removed below
        os.makedirs(pre, exist_ok=True)
        cwd0 = os.getcwd()
        os.chdir(pre)
        try:
            with contextlib.redirect_stdout(so), warnings.catch_warnings():
                warnings.simplefilter("ignore")
                PyTorchModelWrapper(in_path).inject_payload(
                    f"import verif_sink; verif_sink.record('earlier injection {j}')", f"earlier{j}.pt",
                    injection="insertion", overwrite=False)
        finally:
            os.chdir(cwd0)
    shutil.rmtree(d + "_pre", ignore_errors=True)
    before = listing(d)
    with contextlib.redirect_stdout(so), warnings.catch_warnings():
        warnings.simplefilter("ignore")
        try:
            formats = poly.identify_pytorch_file_format(in_path)
        except Exception as e:  # noqa
            formats = None
    cwd = os.getcwd()
    os.chdir(os.path.join(d, "cwd"))
    status, exc = "done", None
    try:
        with contextlib.redirect_stdout(so), warnings.catch_warnings():
            warnings.simplefilter("ignore")
            try:
                w = PyTorchModelWrapper(in_path)
                w.inject_payload(case["payload"], out_rel, injection="insertion", overwrite=case["overwrite"])
            except Exception as e:  # noqa
                status, exc = "raised", type(e).__name__
                if case.get("refusal"):
                    # a refused file stays refused: ask the SAME wrapper object again (and its `formats`
                    # view in between) -- every attempt must raise and write nothing
                    for attempt in (2, 3):
                        try:
                            _ = w.formats
                        except Exception:  # noqa
                            pass
                        try:
                            w.inject_payload(case["payload"], out_rel, injection="insertion",
                                             overwrite=case["overwrite"])
                            status, exc = "done", f"attempt {attempt} on the same wrapper was not refused"
                            break
                        except Exception:  # noqa
                            pass
    finally:
        os.chdir(cwd)
    after = listing(d)
    res_path = in_path if case["overwrite"] else out_path
    res_members = members(res_path) if status == "done" else None
    # the pickle-level primitive applied ONCE to the original model pickle (the value of the model's `inj`)
    injv = None
    first = None
    if in_members:
        first = next((b for n, b in in_members if n.endswith("/data.pkl")), None)
    if first is not None:
        try:
            p = Pickled.load(first)
            p.insert_python_exec(case["payload"])
            injv = p.dumps()
        except Exception:  # noqa
            injv = None
    # runtime part: load the result with full unpickling
    runtime = None
    if status == "done" and not case.get("archive_only") and not case.get("observation") and obj is not None:
        verif_sink.reset()
        try:
            with warnings.catch_warnings():
                warnings.simplefilter("ignore")
                loaded = torch.load(res_path, weights_only=False)
            log = [[k, repr(a), repr(kw)] for k, a, kw in verif_sink.LOG]
            runtime = {"log": log, "first_arg": verif_sink.LOG[0][1][0] if verif_sink.LOG and verif_sink.LOG[0][1] else None,
                       "equal": canon(loaded) == canon(obj)}
            if not runtime["equal"]:
                runtime["loaded"] = json.dumps(canon(loaded))[:400]
                runtime["original"] = json.dumps(canon(obj))[:400]
        except Exception as e:  # noqa
            runtime = {"error": f"{type(e).__name__}: {str(e)[:200]}"}
        verif_sink.reset()
    obs = {
        "case": case, "tag": tag, "status": status, "exc": exc, "formats": formats,
        "before": before, "after": after,
        "in_sha": sha(in_bytes), "in_size": len(in_bytes),
        "in_members": [[n, b.hex()] for n, b in in_members] if in_members is not None else None,
        "res_members": [[n, b.hex()] for n, b in res_members] if res_members is not None else None,
        "res_rel": os.path.relpath(res_path, d),
        "injv": injv.hex() if injv is not None else None,
        "first": first.hex() if first is not None else None,
        "runtime": runtime,
    }
    shutil.rmtree(d, ignore_errors=True)
    return obs


# ---------------------------------------------------------------- model-free oracle
def oracle(o):
    """C16 on one observation; None if the property holds, else what fails"""
    case = o["case"]
    before, after = o["before"], o["after"]
    in_rel, out_rel = "in/model.pt", "cwd/injected_out.pt"
    if case.get("refusal"):
        if o["status"] != "raised":
            return f"a file that is not PyTorch v1.3 / TorchScript v1.4 ({o['formats']}) was not refused"
        if before != after:
            return "a refused call changed the directory tree: " + str(sorted(set(after.items()) ^ set(before.items()))[:3])
        return None
    if case.get("observation"):
        return None
    if o["status"] != "done":
        return f"injection into a torch.save file raised {o['exc']}"
    a, r = o["in_members"], o["res_members"]
    if r is None:
        return "the result is not a readable zip archive"
    if [n for n, _ in r] != [n for n, _ in a]:
        return f"member names / order changed: {[n for n, _ in a]} -> {[n for n, _ in r]}"
    models = [i for i, (n, _) in enumerate(a) if n.endswith("/data.pkl")]
    for i, ((n, b0), (_, b1)) in enumerate(zip(a, r)):
        if i not in models and b0 != b1:
            return f"member {n} is not byte-identical"
    if len(models) != 1:
        return f"generator: {len(models)} model pickles"
    if r[models[0]][1] != o["injv"]:
        return "the model pickle is not the original with exactly one injected call (insert_python_exec once)"
    # file level
    new = sorted(p for p in after if p not in before)
    gone = sorted(p for p in before if p not in after)
    changed = sorted(p for p in before if p in after and after[p] != before[p])
    if case["overwrite"]:
        want_gone = [out_rel] if case.get("out_exists") else []
        if new or gone != want_gone or changed != [in_rel]:
            return f"overwrite: new={new} removed={gone} changed={changed} (expected only {in_rel} changed, no output left)"
    else:
        if after.get(in_rel) != o["in_sha"]:
            return "the input file was modified although overwrite was not requested"
        want_new = [] if case.get("out_exists") else [out_rel]
        want_changed = [out_rel] if case.get("out_exists") else []
        if new != want_new or gone or changed != want_changed:
            return f"no overwrite: new={new} removed={gone} changed={changed} (expected only {out_rel})"
    rt = o["runtime"]
    if rt is not None:
        if "error" in rt:
            return f"torch.load(weights_only=False) of the result failed: {rt['error']}"
        if len(rt["log"]) != 1 or rt["first_arg"] != case["tag"]:
            return f"payload ran {len(rt['log'])} times (sink log {rt['log'][:3]})"
        if not rt["equal"]:
            return f"loaded object differs from the original: {rt.get('loaded')} vs {rt.get('original')}"
    return None


# ---------------------------------------------------------------- main
def run(job):
    rng = random.Random(job["seed"])
    work = os.path.join(job["scratch"], "work")
    os.makedirs(work, exist_ok=True)
    cases = gen_cases(rng, job["n"]) + extra_cases()
    return {"obs": [observe(c, work, f"c{i}") for i, c in enumerate(cases)]}


def run_case(job):
    work = os.path.join(job["scratch"], "work")
    os.makedirs(work, exist_ok=True)
    o = observe(job["case"], work, "replay")
    why = oracle(o)
    for k in ("in_members", "res_members", "injv", "first"):
        o.pop(k, None)
    return {"why": why, "obs": o}


if __name__ == "__main__":
    job = json.load(open(sys.argv[1]))
    result = run_case(job) if job["mode"] == "case" else run(job)
    with open(os.path.join(job["scratch"], "result.json"), "w") as f:
        json.dump(result, f)
