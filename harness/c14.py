"""C14 -- edits through the sequence interface keep every derived view coherent."""
import itertools
import json
import random
import sys
from concurrent.futures import ProcessPoolExecutor

from harness import asm, cachelib, progs
from harness.common import Check, Driver, report_broken_obligations, sx

OBS = ["unparse", "dump", "has_import", "has_call", "imports", "safety", "dumps"]
OS_SYSTEM = b"cos\nsystem\n(S'id'\ntR."          # C14_refuted_unrepaired_properties_cache
WITNESS = [["delitem", 0], ["read", "has_import"], ["read", "has_import"]]
GLOBS = [("os", "system"), ("builtins", "eval"), ("verif_sink", "record"), ("collections", "OrderedDict"),
         ("subprocess", "Popen"), ("builtins", "len"), ("torch", "load"), ("mypkg.sub", "Thing")]
CLS = ["Mark", "Tuple", "Reduce", "Pop", "Stop", "NoneOpcode", "EmptyList", "EmptyDict", "Append", "Memoize",
       "Dup", "EmptyTuple", "TupleOne", "TupleTwo", "PopMark", "Build", "Obj", "NewObj", "SetItem", "List",
       "Dict", "NewTrue", "StackGlobal", "EmptySet", "AddItems", "FrozenSet", "Appends", "BinPersId"]
DONOR = None


def donor():
    global DONOR
    if DONOR is None:
        import pickle
        from fickling.fickle import Pickled
        DONOR = list(Pickled.load(pickle.dumps({"d": [1, 2.5, b"b"], "e": (None, True, 2 ** 70)}, protocol=4)))
    return DONOR


# ------------------------------------------------------------------ symbolic opcode specs
def make_opcode(spec, p, created):
    from fickling import fickle
    k = spec[0]
    if k == "glob":
        return fickle.Global.create(spec[1], spec[2])
    if k == "const":
        return fickle.ConstantOpcode.new(spec[1])
    if k == "cls":
        return getattr(fickle, spec[1])()
    if k == "put":
        return fickle.Put(spec[1])
    if k == "get":
        return fickle.Get.create(spec[1])
    if k == "int":
        return fickle.Int(spec[1])
    if k == "clsarg":
        return getattr(fickle, spec[1])(spec[2])
    if k == "proto":
        return fickle.Proto.create(spec[1])
    if k == "donor":
        d = donor()
        return d[spec[1] % len(d)]
    if k == "cur":
        return p[spec[1] % len(p)] if len(p) else fickle.NoneOpcode()
    if k == "same":
        return created[spec[1] % len(created)] if created else fickle.NoneOpcode()
    raise ValueError(spec)


def rand_spec(rng):
    r = rng.random()
    if r < 0.25:
        m, n = rng.choice(GLOBS)
        return ["glob", m, n]
    if r < 0.40:
        return ["const", rng.choice([0, 5, 300, -7, 2 ** 40, "x", "id", "1+1", "a" * 40])]
    if r < 0.70:
        return ["cls", rng.choice(CLS)]
    if r < 0.76:
        return rng.choice([["put", 3], ["get", 3], ["put", 321987], ["get", 0]])
    if r < 0.80:
        return ["proto", rng.choice([0, 2, 4])]
    if r < 0.88:
        return ["donor", rng.randrange(40)]
    if r < 0.96:
        return ["cur", rng.randrange(60)]
    return ["same", rng.randrange(8)]


def gen_action(rng, p):
    """next action of a random history, chosen looking at the live object"""
    n = len(p)
    r = rng.random()
    if r < 0.28:
        return ["read", rng.choice(cachelib.VIEWS)]
    if r < 0.46:        # edits that keep the program decompilable and change what the views say
        c = rng.randrange(5)
        pos = rng.randrange(0, max(n, 1))
        m, a = rng.choice(GLOBS)
        globs = [i for i, o in enumerate(p) if o.name == "GLOBAL"]
        consts = [i for i, o in enumerate(p) if o.name in ("BININT1", "SHORT_BINUNICODE", "BINUNICODE", "BININT")]
        if c == 0:
            return ["setslice", pos, pos, [["glob", m, a], ["cls", "Pop"]]]
        if c == 1:
            return ["insert", pos, ["glob", m, a]]
        if c == 2 and globs:
            return ["setitem", rng.choice(globs), ["glob", m, a]]
        if c == 3 and consts:
            return ["setitem", rng.choice(consts), ["const", rng.choice([1, 77, "zz", "k"])]]
        pairs = [i for i in globs if i + 1 < n and p[i + 1].name == "POP"]
        if pairs:
            i = rng.choice(pairs)
            return ["delslice", i, i + 2]
        return ["setslice", pos, pos, [["cls", "NoneOpcode"], ["cls", "Pop"]]]
    if r < 0.66:
        i = rng.randrange(-n - 2, n + 3)
        c = rng.randrange(3)
        if c == 0:
            return ["insert", i, rand_spec(rng)]
        if c == 1:
            return ["setitem", i, rand_spec(rng)]
        return ["delitem", i]
    if r < 0.82:
        c = rng.randrange(9)
        if c == 0:
            return ["append", rand_spec(rng)]
        if c == 1:
            return ["extend", [rand_spec(rng) for _ in range(rng.randrange(0, 4))]]
        if c == 2:
            return ["iadd", [rand_spec(rng) for _ in range(rng.randrange(0, 3))]]
        if c == 3:
            return ["extend_self"] if n <= 24 else ["popd"]
        if c == 4:
            return ["pop", rng.randrange(-n - 1, n + 2)]
        if c == 5:
            return ["popd"]
        if c == 6:
            return ["remove", rng.choice([["cur", rng.randrange(60)], ["cls", "Pop"]])]
        if c == 7:
            return ["reverse"]
        return ["clear"] if rng.random() < 0.3 else ["reverse"]
    if r < 0.90:
        lo = rng.choice([None] + list(range(-n - 1, n + 2)))
        hi = rng.choice([None] + list(range(-n - 1, n + 2)))
        if rng.random() < 0.6:
            return ["setslice", lo, hi, [rand_spec(rng) for _ in range(rng.randrange(0, 4))]]
        return ["delslice", lo, hi]
    c = rng.randrange(8)
    if c == 0:
        return ["insert_python", ["1+1"], {}]
    if c == 1:
        return ["insert_python", ["print", 7], {"module": "verif_sink", "attr": "record", "run_first": False}]
    if c == 2:
        return ["insert_python", ["2"], {"run_first": rng.random() < 0.5, "use_output_as_unpickle_result": True}]
    if c == 3:
        return ["insert_python_exec", ["x = 1"], {}]
    if c == 4:
        return ["append_python", ["1+1"], {"pop_result": rng.random() < 0.5}]
    if c == 5:
        return ["insert_magic_int", 1337, rng.choice([-1, 0, 1, 2])]
    if c == 6:
        return ["insert_python_obj", rng.randrange(0, n + 1), [1, "a", {"k": 2, "l": [3]}]]
    return ["insert_function_call", "def f(obj):\n    return obj", [5]]


# ------------------------------------------------------------------ one history on the real object
def run_history(hexdata, actions=None, seed=None, length=0, observe_all=False, only_read=None,
                final_obs=True):
    """Drive the real (logged) Pickled through a history.  Model-free oracles at every step:
    every view read equals that of a freshly constructed Pickled(list(p)); dumps() equals the
    concatenation of the current opcodes' encodings; the opcode list equals a mirrored Python list."""
    from fickling.fickle import Pickled
    try:
        loaded = Pickled.load(bytes.fromhex(hexdata))
    except Exception:
        return None
    pool = cachelib.Pool()
    Logged = cachelib.make_logged(pool)
    p = Logged(list(loaded))
    init_ids = [pool.add(o) for o in p]
    mirror = list(p)
    rng = random.Random(seed) if actions is None else None
    created, steps, bad, explicit = [], [], [], []
    state = {"tainted": False, "known": False, "outside": False, "cyclic": False}

    def do_read(name):
        real = cachelib.view(p, name)
        fr = cachelib.fresh_copy(p)
        if name == "dumps":
            try:
                ref = "D h" + b"".join(bytes(o.data) for o in mirror).hex()
            except Exception as e:
                ref = "ERR " + cachelib.errname(e)
        else:
            ref = cachelib.view(fr, name)
        known_here = False
        if real != ref:
            if state["tainted"] and name in cachelib.PROPS_VIEWS:
                state["known"] = True
                known_here = True
            else:
                bad.append({"step": len(explicit) - 1, "view": name, "object": real[:300],
                            "fresh_Pickled(list(p))": ref[:300]})
        if name in cachelib.PROPS_VIEWS and real.startswith("ERR"):
            state["tainted"] = True
        if ref == "ERR RecursionError":
            state["cyclic"] = True
        steps.append({"m": ["read", name], "real": "ans:" + real + " ids=" + pool.ids(p), "read": name,
                      "known": known_here or (state["tainted"] and name in cachelib.PROPS_VIEWS)})

    def mk(spec):
        o = make_opcode(spec, p, created)
        created.append(o)
        return o

    def xs(k):
        sx_ = pool.sexp(k)
        if sx_ is None:
            state["outside"] = True
        return sx_

    count = 0
    while True:
        if actions is not None:
            if count >= len(actions):
                break
            act = actions[count]
        else:
            if count >= length:
                break
            act = gen_action(rng, p)
        count += 1
        explicit.append(act)
        kind = act[0]
        if kind == "read":
            if only_read is None:
                do_read(act[1])
            elif count - 1 == only_read:      # isolated reference: first view ever evaluated in this process
                steps.append({"real": "ans:" + cachelib.view(cachelib.fresh_copy(p), act[1]) + " ids=",
                              "read": act[1], "m": None})
                break
            continue
        p.log = []
        raised, item, mact = None, None, None
        try:
            if kind == "insert":
                o = mk(act[2]); mact = ["insert", act[1], xs(pool.add(o))]
                p.insert(act[1], o)
                mirror.insert(act[1], o)
            elif kind == "setitem":
                o = mk(act[2]); mact = ["setitem", act[1], xs(pool.add(o))]
                p[act[1]] = o
                mirror[act[1]] = o
            elif kind == "delitem":
                mact = ["delitem", act[1]]
                del p[act[1]]
                del mirror[act[1]]
            elif kind == "setslice":
                os_ = [mk(s) for s in act[3]]
                mact = ["setslice", "-" if act[1] is None else act[1], "-" if act[2] is None else act[2],
                        [xs(pool.add(o)) for o in os_]]
                p[act[1]:act[2]] = os_
                mirror[act[1]:act[2]] = os_
            elif kind == "delslice":
                mact = ["delslice", "-" if act[1] is None else act[1], "-" if act[2] is None else act[2]]
                del p[act[1]:act[2]]
                del mirror[act[1]:act[2]]
            elif kind == "append":
                o = mk(act[1]); mact = ["append", xs(pool.add(o))]
                p.append(o)
                mirror.append(o)
            elif kind in ("extend", "iadd"):
                os_ = [mk(s) for s in act[1]]
                mact = ["extend", [xs(pool.add(o)) for o in os_]]
                if kind == "extend":
                    p.extend(os_)
                else:
                    p.__iadd__(os_)
                mirror.extend(os_)
            elif kind == "extend_self":
                mact = ["extend_self"]
                p.extend(p)
                mirror.extend(list(mirror))
            elif kind in ("pop", "popd"):
                i = act[1] if kind == "pop" else -1
                mact = ["pop", i]
                item = p.pop(i) if kind == "pop" else p.pop()
                m_item = mirror.pop(i)
                if m_item is not item:
                    bad.append({"step": len(explicit) - 1, "why": "pop returned a different opcode than list.pop"})
            elif kind == "remove":
                o = mk(act[1]); mact = ["remove", xs(pool.add(o))]
                p.remove(o)
                mirror.remove(o)
            elif kind == "reverse":
                mact = ["reverse"]
                p.reverse()
                mirror.reverse()
            elif kind == "clear":
                mact = ["clear"]
                p.clear()
                mirror.clear()
            elif kind in ("insert_python", "insert_python_exec", "append_python"):
                getattr(p, kind)(*act[1], **act[2])
            elif kind == "insert_magic_int":
                p.insert_magic_int(act[1], act[2])
            elif kind == "insert_python_obj":
                p.insert_python_obj(act[1], act[2])
            elif kind == "insert_function_call":
                p.insert_function_call_on_unpickled_object(act[1], constant_args=act[2])
            else:
                raise ValueError(kind)
        except Exception as e:
            raised = cachelib.errname(e)
            if mact is not None:        # replay what list does when the same operation raises
                try:
                    if kind == "setitem":
                        mirror[act[1]] = created[-1]
                    elif kind == "delitem":
                        del mirror[act[1]]
                    elif kind in ("pop", "popd"):
                        mirror.pop(act[1] if kind == "pop" else -1)
                    elif kind == "remove":
                        mirror.remove(created[-1])
                    bad.append({"step": len(explicit) - 1, "why": f"{kind} raised {raised} where list does not"})
                except Exception as e2:
                    if type(e2).__name__ != raised:
                        bad.append({"step": len(explicit) - 1,
                                    "why": f"{kind} raised {raised}, list raises {type(e2).__name__}"})
        log = p.log
        p.log = None
        if any(ids is not None for _, ids in log):
            state["tainted"] = False
        if mact is not None:
            evs = [ev for ev, _ in log]
            if item is not None:
                evs.append("item:%d" % pool.add(item))
            if raised:
                evs.append("raise:" + raised)
            steps.append({"m": mact, "real": ";".join(evs) + " ids=" + pool.ids(p)})
        else:               # helper: one model insert per primitive call it made
            for ev, ids in log:
                if ids is None:
                    continue
                f = ev.split(":")
                ix = lambda t: None if t == "-" else int(t)
                if f[0] == "ins":
                    mirror.insert(int(f[1]), pool.objs[int(f[2])])
                    m = ["insert", int(f[1]), xs(int(f[2]))]
                elif f[0] == "set":
                    mirror[int(f[1])] = pool.objs[int(f[2])]
                    m = ["setitem", int(f[1]), xs(int(f[2]))]
                elif f[0] == "del":
                    del mirror[int(f[1])]
                    m = ["delitem", int(f[1])]
                elif f[0] == "setslice":
                    ks = [int(k) for k in f[3].split(",") if k]
                    mirror[ix(f[1]):ix(f[2])] = [pool.objs[k] for k in ks]
                    m = ["setslice", f[1] if f[1] == "-" else int(f[1]), f[2] if f[2] == "-" else int(f[2]),
                         [xs(k) for k in ks]]
                elif f[0] == "delslice":
                    del mirror[ix(f[1]):ix(f[2])]
                    m = ["delslice", f[1] if f[1] == "-" else int(f[1]), f[2] if f[2] == "-" else int(f[2])]
                else:
                    raise ValueError(ev)
                steps.append({"m": m, "real": ev + " ids=" + ids, "helper": kind})
        if [id(o) for o in p] != [id(o) for o in mirror]:
            bad.append({"step": len(explicit) - 1, "why": "opcode list differs from the mirrored Python list",
                        "action": act})
            mirror[:] = list(p)
        if observe_all:
            for name in OBS:
                do_read(name)
    if not observe_all and final_obs and only_read is None:
        for name in OBS:
            explicit.append(["read", name])
            do_read(name)
    line = None
    init = [pool.sexp(k) for k in init_ids]
    cyclic = state["cyclic"] or any(s["real"].startswith("ans:ERR RecursionError") for s in steps)
    if only_read is None and all(s is not None for s in init) and not state["outside"] and not cyclic:
        stds, reprs = pool.tables()
        line = sx(["cache_run", init, [s["m"] for s in steps], stds, reprs, "id"])
    nprim = sum(1 for s in steps if "read" not in s)
    changed = len({s["real"][:s["real"].rfind(" ids=")] for s in steps if s.get("read") == "unparse"}) > 1
    return {"steps": [{k: v for k, v in s.items() if k != "m"} for s in steps], "bad": bad,
            "known": state["known"], "line": line, "actions": explicit, "nedits": nprim,
            "view_changed": changed, "cyclic": cyclic}


SEQ = [0]


def _work(batch):
    import os
    sys.setrecursionlimit(3000)
    out = []
    for c in batch:
        SEQ[0] += 1
        cachelib.arm_timeout()
        try:
            r = run_history(c["hex"], c.get("actions"), c.get("seed"), c.get("length", 0),
                            c.get("observe_all", False))
            if r is not None:
                r["worker"] = [os.getpid(), SEQ[0]]
            out.append(r)
        except cachelib.HistoryTimeout:
            out.append({"steps": [], "bad": [], "known": False, "line": None, "actions": c.get("actions") or [],
                        "nedits": 0, "view_changed": False, "cyclic": False, "timeout": True})
        except Exception as e:
            out.append({"steps": [], "bad": [{"step": "crash", "why": f"{type(e).__name__}: {e}"}],
                        "known": False, "line": None, "actions": c.get("actions") or [], "nedits": 0,
                        "view_changed": False, "cyclic": False})
        finally:
            cachelib.disarm_timeout()
    return out


def run_real(cases):
    B = 40
    batches = [cases[i:i + B] for i in range(0, len(cases), B)]
    with ProcessPoolExecutor(max_workers=14) as ex:
        return [r for rs in ex.map(_work, batches) for r in rs]


def oracle_case(hexdata, actions):
    sys.setrecursionlimit(3000)
    r = run_history(hexdata, actions=[a for a in actions], observe_all=True)
    if r and r["bad"]:
        return {"hex": hexdata, "history": actions, "first": r["bad"][0],
                "oracle": "a view of the edited object differs from a freshly constructed Pickled with the "
                          "same opcode list (or dumps / the opcode list is not what the edits produce)"}
    return None


CHILD = None


def isolated_answers(jobs):
    import os
    import subprocess
    from harness.common import PY, VERIF, env_child
    child = os.path.join(VERIF, "harness", "cache_child.py")
    p = subprocess.run([PY, child], input=json.dumps({"jobs": jobs}), capture_output=True, text=True,
                       env=env_child(), timeout=1500)
    if p.returncode != 0:
        raise RuntimeError("cache_child failed: " + p.stderr[-500:])
    return json.loads(p.stdout)["answers"]


def oracle_isolated(hexdata, actions):
    """model-free, and free of state shared between objects: every view read of the history is compared
    with the same view evaluated in a NEW PROCESS on a freshly constructed Pickled with the same opcode
    list (edits replayed there without reading anything first)"""
    sys.setrecursionlimit(3000)
    full = []
    for a in actions:
        full.append(a)
        if a[0] != "read":
            full += [["read", n] for n in OBS]
    r = run_history(hexdata, actions=full, final_obs=False)
    if not r:
        return None
    reads = [s for s in r["steps"] if "read" in s]
    idx = [i for i, a in enumerate(full) if a[0] == "read"]
    if len(reads) != len(idx):
        return None
    iso = isolated_answers([{"mode": "c14", "hex": hexdata, "actions": full, "only_read": i} for i in idx])
    for st, i, ref in zip(reads, idx, iso):
        real = st["real"][4:st["real"].rfind(" ids=")]
        if st.get("known") or not isinstance(ref, str):
            continue
        if real != ref:
            return {"hex": hexdata, "history": actions, "isolated": True,
                    "first": {"step": i, "view": full[i][1], "object": real[:300],
                              "fresh_Pickled_in_a_new_process": ref[:300]},
                    "oracle": "a view of the edited object differs from the same view of a freshly constructed "
                              "Pickled with the same opcode list evaluated in a new process"}
    return None


def expand(actions):
    full = []
    for a in actions:
        full.append(a)
        if a[0] != "read":
            full += [["read", n] for n in OBS]
    return full


def oracle_context(hexdata, actions, context):
    """views must not depend on what ELSE the process analysed before: this history after each single
    earlier history of the same worker (then after all of them) vs the per-read isolated references"""
    full = expand(actions)
    idx = [i for i, a in enumerate(full) if a[0] == "read"]
    iso = isolated_answers([{"mode": "c14", "hex": hexdata, "actions": full, "only_read": i} for i in idx])
    singles = [[c] for c in context[::-1][:400]]
    jobs = [{"mode": "c14ctx", "context": ctx, "hex": hexdata, "actions": full}
            for ctx in singles + ([context] if len(context) > 1 else [])]
    for job, reads in zip(jobs, isolated_answers(jobs)):
        if not reads or len(reads) != len(idx):
            continue
        for (real, known), i, ref in zip(reads, idx, iso):
            if known or not isinstance(ref, str) or real == ref:
                continue
            return {"hex": hexdata, "history": actions, "context": job["context"],
                    "first": {"step": i, "view": full[i][1], "object_after_context": real[:300],
                              "fresh_Pickled_in_a_new_process": ref[:300]},
                    "oracle": "after another history was run in the same process, a view of the edited object "
                              "differs from the same view of a fresh Pickled with the same opcodes in a new process"}
    return None


def base_pickles():
    import pickle
    return [("natural", pickle.dumps([1, "a", {"k": (2, 3)}], protocol=2)),
            ("getcwd", asm.fam_flagged(None, "osmod")[0]),
            ("eval0", asm.fam_flagged(None, "eval")[0])]


def prefix_len(data):
    import pickletools
    n = 0
    for info, _a, _p in pickletools.genops(data):
        if info.name in ("PROTO", "FRAME"):
            n += 1
        else:
            break
    return n


def alphabet(i0):
    return [
        ["insert", i0, ["glob", "os", "system"]],
        ["delitem", i0],
        ["setitem", i0, ["glob", "builtins", "eval"]],
        ["append", ["cls", "NoneOpcode"]],
        ["popd"],
        ["extend", [["glob", "verif_sink", "record"], ["cls", "Stop"]]],
        ["reverse"],
        ["read", "unparse"],
        ["read", "has_import"],
        ["read", "safety"],
        ["read", "dumps"],
    ]


def main(tier, seed):
    chk = Check("C14", tier, seed)
    chk.rule = ("histories start from natural pickles (protocols 0-5), random typed programs and flagged "
                "families. Exhaustive: all sequences of length 3 (quick) / 4 (thorough) over {insert, del, "
                "setitem, append, pop, extend, reverse, read-ast, read-props, read-verdict, dumps} on 3 base "
                "pickles, then every view is read. Random: <=12 actions out of reads (14 views), edits that keep "
                "the program decompilable (neutral GLOBAL/POP pairs, replaced globals / constants), arbitrary "
                "insert / setitem / delitem (negative and out-of-range indices), slices, append / extend / += / "
                "extend(self) / pop / remove / reverse / clear, and the injection helpers (recorded as the "
                "primitive inserts they perform); half of them read 7 views after EVERY action. Every step is "
                "compared with the model (events = primitive calls made, answers, opcode ids) and, model-free, "
                "with Pickled(list(p)), the concatenated encodings and a mirrored Python list. "
                "distinct = (bytes, history); non-trivial = >=1 successful edit and the decompiled text changed")
    built = chk.regen_and_build(["proofs/CacheProofs.vo"])
    if built:
        chk.prove()
    rng = chk.rng
    k = 3 if tier == "quick" else 4
    nrand = 1500 if tier == "quick" else 30000
    cases = []
    for kind, data in base_pickles():
        al = alphabet(prefix_len(data))
        for seq in itertools.product(al, repeat=k):
            cases.append({"kind": "exh:" + kind, "hex": data.hex(), "actions": list(seq)})
    # a replacement that is EQUAL to what it replaces without being the same program: True / 1, False / 0,
    # 0.0 / -0.0 (seeded C14 r7: __setitem__ keeping the caches when class and `arg ==` agree)
    import pickle as _pk
    twins = [(_pk.dumps([True, False], protocol=0), 3, ["int", 1]),
             (_pk.dumps([True, False], protocol=0), 5, ["int", 0]),
             (asm.assemble([("BININT1", 1), "STOP"]), 0, ["clsarg", "BinInt1", True]),
             (asm.assemble([("GLOBAL", ("verif_sink", "record")), ("BINFLOAT", 0.0), "TUPLE1", "REDUCE", "STOP"]), 1,
              ["clsarg", "BinFloat", -0.0]),
             (asm.assemble([("BINFLOAT", -0.0), "STOP"]), 0, ["clsarg", "BinFloat", 0.0])]
    for data, i, spec in twins:
        for pre in (["read", "unparse"], ["read", "safety"], ["read", "has_import"]):
            cases.append({"kind": "twin", "hex": data.hex(), "observe_all": True,
                          "actions": [pre, ["setitem", i, spec], ["read", "unparse"], ["read", "safety"], ["read", "dumps"]]})
    chk.stats["exhaustive-histories"] = len(cases)
    for _ in range(nrand):
        r = rng.random()
        if r < 0.45:
            kind, data = "natural", progs.natural_pickle(rng)[0]
        elif r < 0.80:
            kind, data = "random", asm.assemble(progs.random_typed(rng, maxlen=16))
        else:
            kind, data = "flagged", asm.fam_flagged(rng)[0]
        cases.append({"kind": kind, "hex": data.hex(), "seed": rng.randrange(1 << 60),
                      "length": rng.randrange(1, 13), "observe_all": rng.random() < 0.5})
    # long opcode lists (more than 1024 and more than 2048 opcodes): serialisation in batches / by slices
    import pickle as _pickle
    for n_items, proto in ((1100, 2), (2300, 1), (1030, 4)):
        data = _pickle.dumps(list(range(n_items)), protocol=proto)
        for j in range(2):
            cases.append({"kind": "long", "hex": data.hex(), "seed": rng.randrange(1 << 60),
                          "length": 4 + 3 * j, "observe_all": False})
    import time
    t1 = time.time()
    results = run_real(cases)
    chk.stats["real-side-seconds"] = round(time.time() - t1, 1)
    lines, idx = [], []
    for i, r in enumerate(results):
        if r is not None and r.get("line"):
            lines.append(r["line"])
            idx.append(i)
    t1 = time.time()
    try:
        out = Driver().query(lines, timeout=600 if tier == "quick" else 2400) if built else []
    except Exception as e:          # a model that does not answer is a broken correspondence, not a crash
        chk.oblige("the extracted model answers every history", False, f"{type(e).__name__}: {str(e)[:300]}")
        out, idx = [], []
    chk.stats["model-side-seconds"] = round(time.time() - t1, 1)
    chk.stats["cyclic-ast-histories(not sent to the model)"] = sum(1 for r in results if r and r.get("cyclic"))
    mism, bad_free, skipped, refused, known_hits, outside = [], [], {}, 0, 0, 0
    helper_hist, errviews = 0, 0
    for c, r in zip(cases, results):
        if r is None:
            refused += 1
            continue
        if r.get("timeout"):
            chk.stats["histories-abandoned(view took > %ds: exponentially large shared structure)" % cachelib.LIMIT] = \
                chk.stats.get("histories-abandoned(view took > %ds: exponentially large shared structure)" % cachelib.LIMIT, 0) + 1
            continue
        chk.count()
        kk = c["kind"].split(":")[0]
        chk.stats[kk] = chk.stats.get(kk, 0) + 1
        if r["nedits"] and r["view_changed"]:
            chk.nontriv((c["hex"], json.dumps(r["actions"])))
        if r["known"]:
            known_hits += 1
        if any("helper" in s for s in r["steps"]):
            helper_hist += 1
        errviews += sum(1 for s in r["steps"] if s["real"].startswith("ans:ERR"))
        for b in r["bad"]:
            bad_free.append({"hex": c["hex"], "history": r["actions"], **b})
        if not r.get("line"):
            outside += 1
    for j, i in enumerate(idx if built else []):
        c, r = cases[i], results[i]
        msteps = out[j].split(" | ") if out[j] else []
        if out[j].startswith("!") or len(msteps) != len(r["steps"]):
            mism.append({"hex": c["hex"], "history": r["actions"], "why": "model output malformed",
                         "model": out[j][:300]})
            continue
        for n, (st, ms) in enumerate(zip(r["steps"], msteps)):
            real = st["real"]
            if "read" in st:
                cut, rcut = ms.rfind(" ids="), real.rfind(" ids=")
                why = cachelib.compare_answer(real[4:rcut], ms[4:cut])
                if st.get("known") and why and not why.startswith("skip:"):
                    why = "skip:known-" + cachelib.KNOWN_SIG
                if why is None and ms[cut:] != real[rcut:]:
                    why = "opcode ids differ at a read"
            else:
                why = None if ms == real else "edit step differs (primitive calls / raise / resulting opcode ids)"
            if why is None:
                continue
            if why.startswith("skip:"):
                skipped[why[5:]] = skipped.get(why[5:], 0) + 1
                continue
            mism.append({"hex": c["hex"], "history": r["actions"], "step": n, "why": why,
                         "real": real[:300], "model": ms[:300]})
            break
    chk.stats.update({"refused-by-parser": refused, "histories-with-injection-helpers": helper_hist,
                      "views-that-raised": errviews,
                      "outside-model(opcode/argument the model does not carry)": outside,
                      "answers-not-compared-with-model": skipped,
                      "histories-touching-known-finding": known_hits})
    if built:
        chk.oblige(f"correspondence: every step (primitive calls made by mix-ins and helpers, raises, opcode "
                   f"ids, every view read), real Pickled vs model, {len(idx)} histories", not mism,
                   json.dumps(mism[:3]))
    chk.oblige(f"every view equals that of a freshly constructed Pickled(list(p)); dumps = concatenated "
               f"encodings; opcode list = mirrored list (real implementation, model-free), "
               f"{len(cases) - refused} histories", not bad_free, json.dumps(bad_free[:3]))
    wit = run_history(OS_SYSTEM.hex(), actions=WITNESS)
    kf = chk.match_known(cachelib.KNOWN_SIG)
    if wit and wit["known"]:
        if kf:
            chk.known_finding(kf, "(witness: del p[0] on cos/system/(S'id'/tR. ; has_import raises, then answers False)")
        else:
            bad_free.append({"hex": OS_SYSTEM.hex(), "history": WITNESS, "step": 2, "view": "has_import",
                             "why": "a failed `properties` read poisons later reads"})
            chk.oblige("a failed `properties` read does not poison later reads", False, json.dumps(wit["steps"][:3]))
    elif known_hits and not kf:
        chk.oblige("a failed `properties` read does not poison later reads", False, "taint rule fired")
    for c, r in list(zip(cases, results))[-2:]:
        if r:
            chk.sample({"kind": c["kind"], "hex": c["hex"][:100], "history": r["actions"][:8],
                        "steps": [s["real"][:70] for s in r["steps"][:8]]})
    if results[0]:
        chk.sample({"kind": cases[0]["kind"], "history": cases[0]["actions"],
                    "steps": [s["real"][:70] for s in results[0]["steps"][:6]]})

    def search():
        for b in bad_free:
            why = oracle_case(b["hex"], b["history"])
            if why:
                return why
        for m in mism:
            why = oracle_case(m["hex"], m["history"])
            if why:
                return why
        for m in (bad_free + mism)[:3]:     # state shared between objects can fool the in-process oracle
            why = oracle_isolated(m["hex"], m["history"])
            if why:
                return why
            me = next((r for c, r in zip(cases, results) if r and c["hex"] == m["hex"]
                       and r["actions"] == m["history"]), None)
            if me and me.get("worker"):
                pid, seq = me["worker"]
                ctx = sorted(((r["worker"][1], {"hex": c["hex"], "actions": r["actions"],
                                                "observe_all": c.get("observe_all", False)})
                              for c, r in zip(cases, results)
                              if r and r.get("worker") and r["worker"][0] == pid and r["worker"][1] < seq),
                             key=lambda t: t[0])
                why = oracle_context(m["hex"], m["history"], [c for _, c in ctx])
                if why:
                    return why
        return None

    report_broken_obligations(chk, search)
    return chk.finish()


def replay(path):
    doc = json.load(open(path))
    case = doc.get("case") or {}
    if "hex" not in case:
        print("replay: no concrete input recorded; re-running the quick check")
        return main("quick", doc.get("seed", 0))
    if case.get("context"):
        why = oracle_context(case["hex"], [a for a in case["history"]], case["context"])
    elif case.get("isolated"):
        why = oracle_isolated(case["hex"], case["history"])
    else:
        why = oracle_case(case["hex"], case["history"])
    if why:
        print(f"VIOLATION property=C14 replay={path}")
        print(json.dumps(why)[:2000])
        return 1
    print("replay: the recorded case no longer fails")
    return 0
