"""Shared real-side machinery of C13 / C14: the real `Pickled` object driven through histories of
reads and edits, observed in the wire format of coq/model/DispatchCache.v, together with the
model-free oracles (a brand-new object per question; a freshly constructed Pickled(list(p)); a
mirrored plain Python list)."""
import ast
import contextlib
import io

from harness import vmlib
from harness.common import sx, wire

VIEWS = ["unparse", "dump", "has_import", "has_call", "has_non_setstate_call", "imports",
         "unsafe_imports", "non_standard_imports", "ncalls", "safety", "trace", "interp", "len", "dumps"]
PROPS_VIEWS = {"has_import", "has_call", "has_non_setstate_call", "imports", "unsafe_imports",
               "non_standard_imports", "ncalls", "safety"}
MODEL_ERRS = {"IndexError", "KeyError", "ValueError", "NotImplementedError", "TypeError"}
KNOWN_SIG = "properties-cache-poisoned"


LIMIT = 20        # seconds of wall time one history may take on the real implementation


class HistoryTimeout(BaseException):
    """not an Exception: must not be swallowed by the views' `except Exception`"""


def _on_alarm(signum, frame):
    raise HistoryTimeout()


def arm_timeout():
    import signal
    signal.signal(signal.SIGALRM, _on_alarm)
    signal.setitimer(signal.ITIMER_REAL, LIMIT)


def disarm_timeout():
    import signal
    signal.setitimer(signal.ITIMER_REAL, 0)


def family(name):
    if name in vmlib.CONST_OPS:
        return "CONST"
    if name in vmlib.PUT_OPS:
        return "PUT"
    if name in vmlib.GET_OPS:
        return "GET"
    if name in vmlib.NOOP_OPS:
        return "NOOP"
    if name == "PERSID":
        return "NORUN"
    return name


def abstract_of(op):
    """abstract op (python nested list for sx) of a real Opcode object; None = outside the model"""
    n = op.name
    try:
        if n in vmlib.CONST_OPS:
            v = {"NONE": None, "NEWTRUE": True, "NEWFALSE": False}[n] if n in (
                "NONE", "NEWTRUE", "NEWFALSE") else op.arg
            return ["CONST", vmlib.const_sexp(v)]
        if n in vmlib.PUT_OPS:
            if isinstance(op.arg, bool) or not isinstance(op.arg, int):
                return None
            return ["PUT", str(op.arg)]
        if n in vmlib.GET_OPS:
            return ["GET", str(int(op.arg))]
        if n in vmlib.NOOP_OPS:
            return "NOOP"
        if n in ("GLOBAL", "INST"):
            if not isinstance(op.arg, str):
                return None
            m, _, a = op.arg.partition(" ")
            return [n, wire(m), wire(a)]
        if n in vmlib.PLAIN_OPS:
            return n
        if n == "PERSID":
            return "NORUN"
    except Exception:
        return None
    return None


def errname(e):
    n = type(e).__name__
    if isinstance(e, RecursionError):
        return "RecursionError"
    return n


class Pool:
    """opcode objects of one history, numbered by identity"""

    def __init__(self):
        self.objs = []
        self.index = {}

    def add(self, op):
        k = self.index.get(id(op))
        if k is None:
            k = len(self.objs)
            self.objs.append(op)
            self.index[id(op)] = k
        return k

    def ids(self, seq):
        return ",".join(str(self.add(o)) for o in seq)

    def sexp(self, k):
        from fickling.fickle import Proto
        op = self.objs[k]
        a = abstract_of(op)
        if a is None:
            return None
        try:
            d = "h" + bytes(op.data).hex()
        except Exception as e:
            n = errname(e)
            d = "E" + (n if n in MODEL_ERRS else "Other")
        pv = "-"
        if isinstance(op, Proto):
            try:
                pv = str(int(op.version))
            except Exception:
                return None
        return [str(k), a, d, pv]

    def tables(self):
        """(stds, reprs) for every opcode registered so far"""
        from fickling.fickle import is_std_module
        from harness import anlib
        mods, consts = set(), {}
        for op in self.objs:
            a = abstract_of(op)
            if isinstance(a, list) and a[0] in ("GLOBAL", "INST"):
                mods.add(bytes.fromhex(a[1][1:]).decode("utf-8", "replace"))
            elif isinstance(a, list) and a[0] == "CONST":
                key = sx(a[1])
                if key not in consts:
                    v = anlib.const_value(a[1])
                    consts[key] = (a[1], ast.unparse(ast.Constant(v)))
                    if isinstance(v, str):
                        mods.add(v)
        stds = []
        for m in sorted(mods):
            try:
                if is_std_module(m):
                    stds.append(wire(m))
            except Exception:
                pass
        return stds, [[c, wire(t)] for c, t in consts.values()]


# ------------------------------------------------------------------ views of the real object
def _imports(nodes):
    return " ".join(["I"] + ["(%s %s)" % (wire(n.module), wire(n.names[0].name)) for n in nodes])


def findings_of(res, with_message=False):
    from harness.anlib import trig
    out = []
    for r in res.results:
        if with_message:
            out.append((str(r.analysis_name), r.severity.name, str(r.message)))
        else:
            out.append("(%s %s %s)" % (r.analysis_name, r.severity.name, wire(trig(r.trigger))))
    return out


def view(p, name):
    """canonical answer of one read-only question (same text as DispatchCache.show_ans), or
    'ERR <ExceptionClass>'"""
    from fickling.analysis import check_safety
    from fickling.fickle import Interpreter
    from fickling.tracing import Trace
    try:
        if name == "unparse":
            return "T " + wire(ast.unparse(p.ast))
        if name == "dump":
            return "T " + wire(vmlib.render_body(p.ast))
        if name == "has_import":
            return "B " + ("T" if p.has_import else "F")
        if name == "has_call":
            return "B " + ("T" if p.has_call else "F")
        if name == "has_non_setstate_call":
            return "B " + ("T" if p.has_non_setstate_call else "F")
        if name == "imports":
            return _imports(p.properties.imports)
        if name == "unsafe_imports":
            return _imports(list(p.unsafe_imports()))
        if name == "non_standard_imports":
            return _imports(list(p.non_standard_imports()))
        if name == "ncalls":
            return "N %d" % len(p.properties.calls)
        if name == "safety":
            res = check_safety(p)
            return "S " + res.severity.name + " " + " ".join(sorted(findings_of(res)))
        if name == "trace":
            buf = io.StringIO()
            with contextlib.redirect_stdout(buf):
                mod = Trace(Interpreter(p)).run()
            names = [family(l) for l in buf.getvalue().splitlines() if l and not l.startswith("\t")]
            return "TR (" + " ".join(names) + ") " + wire(ast.unparse(mod))
        if name == "interp":
            return "T " + wire(ast.unparse(Interpreter(p).to_ast()))
        if name == "interp_cli":
            # what the CLI does for the 2nd member of a stack: its own variable numbering and result name.
            # Not a question the model answers (compared only with a brand-new object); it is in the
            # histories because it must not change any LATER answer
            return "T " + wire(ast.unparse(Interpreter(p, first_variable_id=3, result_variable="result1").to_ast()))
        if name == "len":
            return "N %d" % len(p)
        if name == "dumps":
            d = p.dumps()
            buf = io.BytesIO()
            p.dump(buf)                       # the file-writing twin must produce the same bytes
            if buf.getvalue() != d:
                return "D <dump(file) wrote %d bytes, dumps() returned %d: they differ>" % (len(buf.getvalue()), len(d))
            return "D " + wire(d)
    except Exception as e:
        return "ERR " + errname(e)
    raise ValueError(name)


def standard_observables(p):
    """what C13 compares across histories / copies / processes: decompiled text, verdict, the SET of
    findings (name, severity, message), serialised bytes -- each 'ERR <class>' if it raises"""
    from fickling.analysis import check_safety
    out = {}
    try:
        out["text"] = ast.unparse(p.ast)
    except Exception as e:
        out["text"] = "ERR " + errname(e)
    try:
        res = check_safety(p)
        out["verdict"] = res.severity.name
        out["findings"] = sorted(set(findings_of(res, with_message=True)))
        out["order"] = [f[2] for f in findings_of(res, with_message=True)]
    except Exception as e:
        out["verdict"] = "ERR " + errname(e)
        out["findings"] = []
        out["order"] = []
    try:
        out["dumps"] = p.dumps().hex()
    except Exception as e:
        out["dumps"] = "ERR " + errname(e)
    return out


def compare_answer(real, model):
    """real canonical answer vs the model's: None = agree, 'skip:<why>' = not comparable, else why"""
    if real == "ERR RecursionError":
        return "skip:cyclic"
    if model.startswith("ERR Unmodelled") or model.startswith("ERR Fuel"):
        if real.startswith("D "):
            return "model declines an answer that cannot fail"
        return "skip:declined"
    if "<deep>" in model or "(deep)" in model or "3c646565703e" in model or "286465657029" in model:
        return "skip:deep"
    if model.startswith("ERR"):
        return None if real.startswith("ERR") else "model raises, real answers"
    if real.startswith("ERR"):
        return "real raises %s, model answers" % real[4:]
    return None if real == model else "answers differ"


# ------------------------------------------------------------------ the logged real object
def make_logged(pool):
    from fickling.fickle import Pickled

    class Logged(Pickled):
        """Pickled whose three primitive mutators record how they were called"""
        log = None

        def _note(self, ev):
            if self.log is not None:
                self.log.append([ev, None])

        def _done(self):
            if self.log is not None:
                self.log[-1][1] = pool.ids(self._opcodes)

        def insert(self, index, opcode):
            self._note("ins:%d:%d" % (index, pool.add(opcode)))
            super().insert(index, opcode)
            self._done()

        def __setitem__(self, index, item):
            if isinstance(index, slice):
                item = list(item)
                self._note("setslice:%s:%s:%s" % ("-" if index.start is None else index.start,
                                                  "-" if index.stop is None else index.stop,
                                                  pool.ids(item)))
            else:
                self._note("set:%d:%d" % (index, pool.add(item)))
            super().__setitem__(index, item)
            self._done()

        def __delitem__(self, index):
            if isinstance(index, slice):
                self._note("delslice:%s:%s" % ("-" if index.start is None else index.start,
                                               "-" if index.stop is None else index.stop))
            else:
                self._note("del:%d" % index)
            super().__delitem__(index)
            self._done()

    return Logged


def fresh_copy(p):
    from fickling.fickle import Pickled
    return Pickled(list(p))
