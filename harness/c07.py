"""C07 -- the safe ML environment mediates every global, including in nested unpicklings.

Theorems: coq/props/C07.v over coq/model/MLNest.v + the generated LoaderPaths.v (observed from the
installed torch and from activate_safe_ml_environment on every run).  Tie: trees of nested payloads
(0..3 levels; inner payload bare / legacy stacked container / zip container; loader callables
torch.storage._load_from_bytes, pickle.loads, _pickle.loads) are turned into real byte strings and
loaded through the four hooked entry points in children (harness/c07_child.py); observed = every
pickle.find_class audit event, the sink log, the outcome; compared with the extracted model.
Oracle (model-free): the same bytes loaded through the STOCK pickle module give the reference
trace; under the environment the trace must be its longest prefix inside BASE + additions."""
import json
import os
import subprocess
from concurrent.futures import ThreadPoolExecutor

from harness.common import BUILD, PY, VERIF, Check, Driver, env_child, report_broken_obligations, sx, wire

CHILD = os.path.join(VERIF, "harness", "c07_child.py")
SINK = ["verif_sink", "record"]
LFB = ["torch.storage", "_load_from_bytes"]
PLOADS = ["pickle", "loads"]
CLOADS = ["_pickle", "loads"]
GOOD = [["collections", "OrderedDict"], ["numpy", "dtype"], ["torch", "Size"]]
BADG = [SINK, ["fractions", "Fraction"], ["collections", "Counter"], ["torch", "is_tensor"], ["decimal", "Decimal"],
        # qualified names hanging off an allow-listed object (STACK_GLOBAL, protocol 4): not in the allowlist
        ["collections", "OrderedDict.fromkeys"], ["torch", "Size.count"],
        # the name one addition permits, looked up in the module of another addition (fractions re-exports Decimal)
        ["fractions", "Decimal"], ["decimal", "Context"],
        # an addition a.b.c read as (a, "b.c") instead of (a.b, "c")
        ["collections", "abc.Mapping"]]
ADDS = [None, ["pickle.loads", "_pickle.loads"], ["_pickle.loads", "fractions.Fraction"],
        ["pickle.loads", "verif_sink.record"],
        # two additions in two modules the allowlist does not know: each permits exactly its own pair
        ["fractions.Fraction", "decimal.Decimal"],
        # an addition with two dots permits (collections.abc, Mapping) and not (collections, abc.Mapping)
        ["collections.abc.Mapping"]]
ENTRY_KIND = {"pl": "pickle.load", "pls": "pickle.loads", "cl": "_pickle.load", "cls": "_pickle.loads"}
LEGACY_RETS = ["magic", "proto", "dict", "none", "list"]
KNOWN_SIGS = ["torch.storage._load_from_bytes/legacy", "torch.storage._load_from_bytes/zip"]


def split(d):
    m, n = d.rsplit(".", 1)
    return [m, n]


def adds_pairs(i):
    return [split(a) for a in (ADDS[i] or [])]


def load_table():
    obs = json.load(open(os.path.join(BUILD, "loader_paths.json")))
    return {(r["module"], r["name"], r["container"]): (r["kinds"], r["completes"]) for r in obs["rows"]}, obs


# ---------------------------------------------------------------- trees
class Ids:
    def __init__(self):
        self.n = 0

    def next(self):
        self.n += 1
        return self.n


def glob_ev(g, ids):
    return {"g": list(g), "id": ids.next()}


def call_ev(table, c, ct, children_evs, ids):
    """a call of loader callable c on a container ct whose i-th unpickling does children_evs[i]"""
    kinds, ok = table[(c[0], c[1], ct)]
    rets = {"bare": ["none"], "zip": ["none"], "legacy": LEGACY_RETS}[ct]
    ch = []
    for i, k in enumerate(kinds):
        evs = children_evs[i] if i < len(children_evs) else []
        ch.append({"k": k, "ret": rets[i] if i < len(rets) else "none", "evs": evs})
    return {"c": list(c), "ct": ct, "ok": ok, "ch": ch, "id": ids.next()}


def payload_slot(table, c, ct):
    """index of the child that carries an arbitrary attacker pickle (None: the bytes are not a pickle)"""
    kinds, _ = table[(c[0], c[1], ct)]
    if c != LFB and ct == "zip":
        return None              # pickle.loads on zip bytes: not a pickle at all
    if c == LFB and ct == "legacy":
        return 3 if len(kinds) > 3 else 0
    return 0


PAIRS = [(LFB, "bare"), (LFB, "legacy"), (LFB, "zip"), (PLOADS, "bare"), (CLOADS, "bare"),
         (PLOADS, "legacy"), (CLOADS, "legacy"), (PLOADS, "zip"), (CLOADS, "zip")]
PAIR_W = [3, 4, 4, 4, 4, 1, 1, 0.4, 0.4]


def allowed_py(base, adds, g):
    return g[1] in base.get(g[0], ()) or list(g) in adds


def gen_events(rng, table, base, adds, depth, maxdepth, ids):
    evs = []
    for _ in range(rng.choice([0, 1, 1, 2, 2, 3])):
        if depth < maxdepth and rng.random() < 0.5:
            for _try in range(4):
                c, ct = rng.choices(PAIRS, PAIR_W)[0]
                if allowed_py(base, adds, c) or rng.random() < 0.15:
                    break
            kinds, _ = table[(c[0], c[1], ct)]
            slot = payload_slot(table, c, ct)
            chev = [[] for _ in kinds]
            if slot is not None:
                chev[slot] = gen_events(rng, table, base, adds, depth + 1, maxdepth, ids)
                if ct == "legacy" and c == LFB and rng.random() < 0.3:      # header pickles are attacker data too
                    chev[rng.choice([0, 1, 2, 4][: len(kinds) - 1])] = [glob_ev(rng.choice(GOOD + BADG), ids)]
            evs.append(call_ev(table, c, ct, chev, ids))
        else:
            g = rng.choice(GOOD) if rng.random() < 0.68 else rng.choice(BADG)
            evs.append(glob_ev(g, ids))
    return evs


def random_case(rng, table, base):
    ai = rng.randrange(len(ADDS))
    entry = rng.choice(list(ENTRY_KIND))
    ids = Ids()
    evs = gen_events(rng, table, base, adds_pairs(ai), 0, 3, ids)
    return {"tree": {"k": ENTRY_KIND[entry], "ret": "none", "evs": evs}, "entry": entry, "adds": ai}


def grid_cases(table):
    """every entry point x addition set x (callable, container) x wrapping depth 0..2 x {permitted,
    refused} innermost global"""
    out = []
    wrapper = {0: (LFB, "bare"), 1: (PLOADS, "bare"), 2: (CLOADS, "bare"), 3: (PLOADS, "bare")}
    for entry in ENTRY_KIND:
        for ai in range(3):
            for c, ct in PAIRS:
                slot = payload_slot(table, c, ct)
                for wrap in (0, 1, 2):
                    for g in (GOOD[1], SINK, BADG[2], BADG[5]):
                        ids = Ids()
                        kinds, _ = table[(c[0], c[1], ct)]
                        chev = [[] for _ in kinds]
                        if slot is not None:
                            chev[slot] = [glob_ev(GOOD[0], ids), glob_ev(g, ids), glob_ev(GOOD[2], ids)]
                        evs = [call_ev(table, c, ct, chev, ids), glob_ev(GOOD[0], ids)]
                        for _ in range(wrap):
                            wc, wct = wrapper[ai]
                            evs = [glob_ev(GOOD[1], ids), call_ev(table, wc, wct, [evs], ids)]
                        out.append({"tree": {"k": ENTRY_KIND[entry], "ret": "none", "evs": evs},
                                    "entry": entry, "adds": ai})
    # exactness of the additions: with two additions in two unknown modules, each addition's own pair is
    # permitted and every other pairing of those modules and names is refused -- flat and one level down
    own = [["fractions", "Fraction"], ["decimal", "Decimal"]]
    for entry in ENTRY_KIND:
        for ai in range(len(ADDS)):
            for g in own + [["fractions", "Decimal"], ["decimal", "Context"], BADG[2],
                            ["collections.abc", "Mapping"], ["collections", "abc.Mapping"]]:
                for wrap in (0, 1):
                    ids = Ids()
                    evs = [glob_ev(GOOD[0], ids), glob_ev(own[0], ids), glob_ev(g, ids), glob_ev(GOOD[2], ids)]
                    if wrap:
                        evs = [glob_ev(GOOD[1], ids), call_ev(table, LFB, "bare", [evs], ids)]
                    out.append({"tree": {"k": ENTRY_KIND[entry], "ret": "none", "evs": evs},
                                "entry": entry, "adds": ai})
    return out


def node_sx(n):
    evs = []
    for e in n["evs"]:
        if "g" in e:
            evs.append(["g", [wire(e["g"][0]), wire(e["g"][1])]])
        else:
            evs.append(["c", [wire(e["c"][0]), wire(e["c"][1])], e["ct"], bool(e["ok"]),
                        [node_sx(c) for c in e["ch"]]])
    return ["n", wire(n["k"]), evs]


def flatten(n, enclosing="root"):
    """pre-order list of (global, event id, enclosing (callable/container)) -- the order in which a
    stock unpickler meets the globals (used only to ATTRIBUTE an observed event to a call)"""
    out = []
    for e in n["evs"]:
        if "g" in e:
            out.append((e["g"], e["id"], enclosing))
        else:
            out.append((e["c"], e["id"], enclosing))
            for c in e["ch"]:
                out += flatten(c, f"{e['c'][0]}.{e['c'][1]}/{e['ct']}")
    return out


def depth_of(n):
    d = 0
    for e in n["evs"]:
        if "c" in e:
            d = max(d, 1 + max([depth_of(c) for c in e["ch"]] or [0]))
    return d


# ---------------------------------------------------------------- running both sides
def run_child(cases, hooked=True, want_hex=False):
    job = {"adds": ADDS, "cases": [dict(c, hooked=hooked) for c in cases], "want_hex": want_hex}
    p = subprocess.run([PY, CHILD], input=json.dumps(job), capture_output=True, text=True,
                       env=env_child({"PYTHONDONTWRITEBYTECODE": "1", "PYTHONWARNINGS": "ignore"}),
                       timeout=3000, cwd=VERIF)
    lines = [l for l in p.stdout.splitlines() if l.startswith("{")]
    if p.returncode != 0 or not lines:
        raise RuntimeError(f"c07 child failed rc={p.returncode}: {p.stderr[-800:]}")
    return json.loads(lines[-1])["results"]


def run_children(cases, hooked=True, nchunk=10):
    nchunk = max(1, min(nchunk, len(cases) // 20 or 1))
    idx = [list(range(i, len(cases), nchunk)) for i in range(nchunk)]
    with ThreadPoolExecutor(max_workers=nchunk) as ex:
        parts = list(ex.map(lambda ix: run_child([cases[i] for i in ix], hooked), idx))
    out = [None] * len(cases)
    for ix, part in zip(idx, parts):
        for i, r in zip(ix, part):
            out[i] = r
    return out


def real_line(r):
    return r["out"] + ";" + ",".join(f"{m}:{n}" for m, n in r["ev"])


def model_query(drv, cases):
    qs = [sx(["mlnest", [[wire(m), wire(n)] for m, n in adds_pairs(c["adds"])], node_sx(c["tree"])])
          for c in cases]
    return [l.split("|") for l in drv.query(qs)]


# ---------------------------------------------------------------- the property itself (model-free)
def oracle(case, hooked, stock, base):
    """hooked / stock: what the same bytes did through the environment / through the stock pickle
    module.  Returns (why, signature) or None."""
    adds = adds_pairs(case["adds"])
    ok = lambda g: allowed_py(base, adds, g)  # noqa: E731
    flat = flatten(case["tree"])

    def attribute(pos):
        return flat[pos][2] if pos < len(flat) and flat[pos][0] == hooked["ev"][pos] else "unattributed"
    for pos, g in enumerate(hooked["ev"]):
        if not ok(g):
            return (f"global {g[0]}.{g[1]} outside BASE + additions {ADDS[case['adds']]} was resolved while the "
                    f"environment was active (entry {case['entry']}, inside {attribute(pos)}); "
                    f"sink calls: {hooked['sink']}", attribute(pos))
    ref = stock["ev"]
    cut = next((i for i, g in enumerate(ref) if not ok(g)), None)
    if cut is None:
        if hooked["ev"] != ref or hooked["out"] != stock["out"]:
            return (f"all globals permitted but the load differs from the stock one: {real_line(hooked)} vs "
                    f"{real_line(stock)}", None)
    else:
        if hooked["ev"] != ref[:cut] or hooked["out"] != "U":
            return (f"first global outside the set is {ref[cut]}: expected unsafe-file error after "
                    f"{len(ref[:cut])} resolutions, observed {real_line(hooked)}", None)
    if hooked["sink"] and not ok(SINK):
        return ("the sink was executed", None)
    return None


def minimal_case(table, case, sig):
    """the smallest tree exercising the same (callable, container): one call, one refused global"""
    if "/" not in sig:
        return None
    cn, ct = sig.split("/")
    c = split(cn)
    if (c[0], c[1], ct) not in table:
        return None
    ids = Ids()
    slot = payload_slot(table, c, ct)
    kinds, _ = table[(c[0], c[1], ct)]
    chev = [[] for _ in kinds]
    if slot is None:
        return None
    chev[slot] = [glob_ev(SINK, ids)]
    ai = next((i for i in range(len(ADDS)) if c == LFB or c in adds_pairs(i)), case["adds"])
    return {"tree": {"k": ENTRY_KIND[case["entry"]], "ret": "none", "evs": [call_ev(table, c, ct, chev, ids)]},
            "entry": case["entry"], "adds": ai}


def denylisted_base():
    """allow-listed globals that the static analysis' own denylists name (sanity of BASE)"""
    import fickling.analysis as an
    import fickling.ml as fml
    um = set(an.UnsafeImportsML.UNSAFE_MODULES)
    ui = an.UnsafeImportsML.UNSAFE_IMPORTS
    out = []
    for m, d in fml.ML_ALLOWLIST.items():
        for n in d:
            if m in um or m.split(".")[0] in um or (m in ui and n in ui[m]):
                if [m, n] != LFB:
                    out.append([m, n])
    return out


def main(tier, seed):
    chk = Check("C07", tier, seed)
    quick = tier == "quick"
    chk.rule = ("grid: 4 entry points x 3 addition sets x 9 (loader callable, container) pairs x wrapping depth 0..2 "
                "x {permitted, sink, allow-listed-module/wrong-name} innermost global; random: trees of nested "
                "payloads, nesting 0..3, 0..3 events per unpickling over 3 permitted / 5 refused globals (one of them "
                "CALLED: verif_sink.record) and the 3 loader callables, legacy headers sometimes carrying globals, 4 "
                "addition sets.  Children shapes follow the regenerated LoaderPaths table.  Observed: pickle.find_class "
                "audit events in order, outcome, sink calls.  non-trivial = nesting >= 1; distinct by (entry, additions, "
                "observed trace)")
    built = chk.regen_and_build(["proofs/MLNestProofs.vo"])
    if built:
        chk.prove()
    try:
        table, obs = load_table()
    except Exception as e:  # noqa: BLE001
        chk.oblige("generated loader-path table available", False, str(e))
        report_broken_obligations(chk, lambda: None)
        return chk.finish()
    chk.extra["loader_paths_observed"] = {"torch": obs.get("torch"), "hooked": obs.get("hooked"),
                                          "rows": {f"{k[0]}.{k[1]}/{k[2]}": v[0] for k, v in table.items()}}
    import fickling.ml as fml
    base = {m: list(d) for m, d in fml.ML_ALLOWLIST.items()}
    deny = denylisted_base()
    chk.oblige("sanity of BASE: no allow-listed global is named by the analysis' UNSAFE_MODULES / UNSAFE_IMPORTS "
               "(other than torch.storage._load_from_bytes, whose entry is justified by nested mediation)",
               not deny, json.dumps(deny))
    cases = grid_cases(table)
    ngrid = len(cases)
    cases += [random_case(chk.rng, table, base) for _ in range(500 if quick else 40000)]
    chk.stats["grid_cases"] = ngrid
    chk.stats["random_cases"] = len(cases) - ngrid
    results = []
    try:
        results = run_children(cases, True, 12 if quick else 14)
        ran = True
    except Exception as e:  # noqa: BLE001
        chk.oblige("implementation side ran (children)", False, f"{type(e).__name__}: {e}")
        ran = False
    bad = []
    if ran and built:
        ml = model_query(Driver(), cases)
        mism = []
        for i, (c, r, m) in enumerate(zip(cases, results, ml)):
            chk.count()
            d = depth_of(c["tree"])
            chk.stats.setdefault("nesting_depth", {}).setdefault(str(d), 0)
            chk.stats["nesting_depth"][str(d)] += 1
            chk.stats.setdefault("outcomes", {}).setdefault(r["out"], 0)
            chk.stats["outcomes"][r["out"]] += 1
            flags = m[2] if len(m) > 2 else "???"
            chk.stats.setdefault("model_flags(conforms,all_mediated,uses_d11)", {}).setdefault(flags, 0)
            chk.stats["model_flags(conforms,all_mediated,uses_d11)"][flags] += 1
            if d >= 1:
                chk.nontriv((c["entry"], c["adds"], real_line(r)))
            want_sink = sum(1 for g in r["ev"] if g == SINK)
            if real_line(r) != m[0] or len(r["sink"]) != want_sink or flags[0] != "T":
                mism.append({"case": c, "real": real_line(r), "sink": r["sink"], "model": m[0],
                             "model_flags": flags, "index": i})
        chk.oblige(f"correspondence: MLNest model vs real hooked loads, {ngrid} grid + {len(cases) - ngrid} random "
                   f"nested payloads", not mism, json.dumps(mism[:2])[:1800])
        bad = mism
        if cases:
            j = next((i for i, c in enumerate(cases) if depth_of(c["tree"]) >= 2 and results[i]["out"] == "U"), 0)
            chk.sample({"entry": cases[j]["entry"], "additions": ADDS[cases[j]["adds"]],
                        "tree": cases[j]["tree"], "observed": real_line(results[j])})
    # ---- recorded findings (D11): re-confirmed with the oracle on minimal witnesses ----
    if ran:
        for sig in KNOWN_SIGS:
            k = chk.match_known(sig)
            w = minimal_case(table, {"entry": "pls", "adds": 0}, sig)
            if w is None:
                continue
            try:
                h = run_child([w], True)[0]
                s = run_child([w], False)[0]
                r = oracle(w, h, s, base)
            except Exception as e:  # noqa: BLE001
                r = (f"oracle crashed: {e}", None)
            if r and r[1] == sig and k:
                chk.known_finding(k, f"[{r[0]}]")
            elif r:
                chk.oblige(f"witness for {sig} behaves as recorded", False, json.dumps(r))
                bad.append({"case": w, "real": r[0], "model": "(witness)", "index": -1})

    def search():
        if deny:
            g = deny[0]
            ids = Ids()
            w = {"tree": {"k": "pickle.loads", "ret": "none", "evs": [glob_ev(g, ids)]}, "entry": "pls", "adds": 0}
            h = run_child([w], True, want_hex=True)[0]
            if h["ev"] == [g]:
                return {"oracle": f"the environment with no additions resolves {g[0]}.{g[1]}, which the static "
                                  f"analysis' own denylist names as unsafe (BASE is not safe)",
                        "case": w, "bytes": h.get("hex"), "observed": real_line(h)}
        order = [b["case"] for b in bad] + cases
        if not order:
            return None
        order = order[:3000]
        hooked = run_children(order, True)
        stock = run_children(order, False)
        for c, h, s in zip(order, hooked, stock):
            r = oracle(c, h, s, base)
            if not r:
                continue
            why, sig = r
            k = chk.match_known(sig) if sig else None
            if k:
                chk.known_finding(k)
                continue
            small = minimal_case(table, c, sig) if sig else None
            if small is not None:
                h2 = run_child([small], True, want_hex=True)[0]
                s2 = run_child([small], False)[0]
                r2 = oracle(small, h2, s2, base)
                if r2:
                    return {"oracle": r2[0], "signature": r2[1], "case": small, "bytes": h2.get("hex"),
                            "observed": real_line(h2), "stock": real_line(s2), "adds_table": ADDS}
            h3 = run_child([c], True, want_hex=True)[0]
            return {"oracle": why, "signature": sig, "case": c, "bytes": h3.get("hex"),
                    "observed": real_line(h), "stock": real_line(s), "adds_table": ADDS}
        return None

    report_broken_obligations(chk, search)
    return chk.finish()


def replay(path):
    doc = json.load(open(path))
    case = (doc.get("case") or {}).get("case")
    if not case:
        print("replay: no concrete input recorded; re-running the quick check")
        return main("quick", doc.get("seed", 0))
    import fickling.ml as fml
    from harness.common import load_known_findings
    base = {m: list(d) for m, d in fml.ML_ALLOWLIST.items()}
    h = run_child([case], True)[0]
    s = run_child([case], False)[0]
    r = oracle(case, h, s, base)
    known = {k.get("signature") for k in load_known_findings()
             if k.get("property") == "C07" and k.get("status", "known") == "known"}
    if r and r[1] not in known:
        print(f"VIOLATION property=C07 replay={path}")
        print(r[0])
        return 1
    if not r and "denylist" in (doc.get("case") or {}).get("oracle", ""):
        g = case["tree"]["evs"][0]["g"]
        if h["ev"] == [g]:
            print(f"VIOLATION property=C07 replay={path}")
            print(f"{g} is still resolved by the environment with no additions")
            return 1
    print("replay: the recorded input no longer fails")
    return 0
