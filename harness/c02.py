"""C02 -- the checked load is fail-closed and loads exactly the bytes it analysed.

Theorems: coq/props/C02.v over coq/model/Loader.v (+ Codec, Analysis, Severity, Hooks).
Tie: the extracted model (`c02_load`) and the real fickling.load / hooked pickle.load /
FicklingContextManager are run on the same stream contents (children: harness/c02_child.py):
inputs benign / flagged / analysis-crashing / undecodable / unsupported-opcode, six thresholds,
bytes, bytearray, BytesIO, real file, non-seekable streams, and streams that swap their content for a
sink-calling payload once the parse is over, three armings.  Observed: outcome, info["severity"],
the bytes handed to the stock unpickler, pickle.find_class audit events, the sink log, stream
accesses by phase.  Oracle (model-free): `oracle()` below."""
import ast
import json
import os
import pickle
import pickletools
import shutil
import subprocess
from concurrent.futures import ThreadPoolExecutor

from harness import asm, c02_streams, progs, vmlib
from harness.common import BUILD, PY, VERIF, Check, Driver, env_child, report_broken_obligations, sx, wire

CHILD = os.path.join(VERIF, "harness", "c02_child.py")
DOC = ["LIKELY_SAFE", "POSSIBLY_UNSAFE", "SUSPICIOUS", "LIKELY_UNSAFE",
       "LIKELY_OVERTLY_MALICIOUS", "OVERTLY_MALICIOUS"]
EVIL = asm.assemble([("GLOBAL", ("verif_sink", "record")), "MARK", ("STRING", "EVIL"), "TUPLE", "REDUCE", "STOP"])
KINDS_BYTES = ["bytes", "bytearray"]
KINDS_FILE = ["bytesio", "rawbytesio", "file", "nonseek", "nonseek_noattr", "swap", "swap_nonseek"]
MODEL_KIND = {"flaky": "seek", "bytes": "bytes", "bytearray": "bytes", "bytesio": "seek", "rawbytesio": "seek", "file": "seek",
              "nonseek": "nonseek", "nonseek_noattr": "nonseek", "swap": "seek", "swap_nonseek": "nonseek"}
PARSE_EXC = {"Empty": "EmptyPickleError", "Decode": "PickleDecodeError", "NotImpl": "NotImplementedError"}
ANALYSIS_EXC = {"IndexError": {"IndexError"}, "KeyError": {"KeyError"}, "ValueError": {"ValueError"},
                "NotImplementedError": {"NotImplementedError"}, "TypeError": {"TypeError", "AttributeError"}}

# ---------------------------------------------------------------- inputs (all harmless when really unpickled)
S = "SHORT_BINUNICODE"
VOC = [
    # module, name, argument-pushing items, is a class
    ("verif_sink", "record", [("BININT1", 7)], False),
    ("verif_sink", "record", [], False),
    ("verif_sink", "Thing", [(S, "a")], True),
    ("os", "getcwd", [], False),
    ("os", "getpid", [], False),
    ("posix", "getcwd", [], False),
    ("builtins", "eval", [("UNICODE", "1+1")], False),
    ("__builtin__", "eval", [(S, "2*3")], False),
    ("builtins", "exec", [(S, "pass")], False),
    ("builtins", "compile", [(S, "1"), (S, "s"), (S, "eval")], False),
    ("builtins", "len", ["EMPTY_LIST"], False),
    ("builtins", "getattr", [("BININT1", 1), (S, "real")], False),
    ("builtins", "sorted", ["EMPTY_LIST"], False),
    ("builtins", "dict", [], True),
    ("sys", "getrecursionlimit", [], False),
    ("shutil", "get_terminal_size", [], False),
    ("subprocess", "list2cmdline", ["EMPTY_LIST"], False),
    ("socket", "gethostname", [], False),
    ("code", "InteractiveInterpreter", [], True),
    ("collections", "OrderedDict", [], True),
    ("fractions", "Fraction", [("BININT1", 1), ("BININT1", 2)], True),
    ("datetime", "date", [("BININT2", 2020), ("BININT1", 1), ("BININT1", 2)], True),
    ("decimal", "Decimal", [(S, "1.5")], True),
    ("mypkg.sub", "Thing", [], True),
    ("verif_canary_pkg.sub", "go", [], False),        # importable non-stdlib package (see c02_child.install_canary)
    ("os.path", "join", [(S, "a"), (S, "b")], False),
]
# hook operations performed BEFORE the arming (C02_armed_equiv quantifies over every ML-free history)
HISTORIES = [[], [], ["enter", "leave"], ["arm"], ["arm", "rm"], ["enter"], ["arm", "enter", "leave"],
             ["enter", "enter", "leave"], ["rm"]]
CALLS = ["none", "REDUCE", "OBJ", "NEWOBJ", "NEWOBJ_EX", "INST"]
DISPOSALS = ["result", "pop", "memo", "inlist", "build", "dup"]


def gen_call(rng, voc=None, call=None, disp=None):
    """(program, label): one global resolved / called / disposed of in a chosen way"""
    m, n, args, is_class = voc or rng.choice(VOC)
    call = call or rng.choice(CALLS)
    disp = disp or rng.choice(DISPOSALS)
    if call in ("NEWOBJ", "NEWOBJ_EX") and not is_class:
        call = "REDUCE"
    prog = []
    proto = rng.choice([None, 0, 2, 4])
    if proto is not None:
        prog.append(("PROTO", proto))
    if rng.random() < 0.4:
        prog += [("BININT1", 5), "EMPTY_LIST", (S, "pad"), "APPEND", "POP", "POP"]
    if disp == "inlist":
        prog.append("EMPTY_LIST")
    how = rng.choice(["GLOBAL", "STACK_GLOBAL"])
    res = [("GLOBAL", (m, n))] if how == "GLOBAL" else [(S, m), (S, n), "STACK_GLOBAL"]
    if call == "none":
        prog += res
    elif call == "REDUCE":
        prog += res + ["MARK"] + list(args) + ["TUPLE", "REDUCE"]
    elif call == "OBJ":
        prog += ["MARK"] + res + list(args) + ["OBJ"]
    elif call == "NEWOBJ":
        prog += res + ["MARK"] + list(args) + ["TUPLE", "NEWOBJ"]
    elif call == "NEWOBJ_EX":
        prog += res + ["MARK"] + list(args) + ["TUPLE", "EMPTY_DICT", "NEWOBJ_EX"]
    elif call == "INST":
        prog += ["MARK"] + list(args) + [("INST", (m, n))]
        how = "INST"
    if disp == "pop":
        prog += ["POP", "NONE"]
    elif disp == "memo":
        prog += [("BINPUT", 1), "POP", ("BINGET", 1)]
    elif disp == "inlist":
        prog += ["APPEND"]
    elif disp == "build":
        prog += ["EMPTY_DICT", (S, "k"), ("BININT1", 3), "SETITEM", "BUILD"]
    elif disp == "dup":
        prog += ["DUP", "TUPLE2"]
    prog.append("STOP")
    return prog, f"{m}.{n}/{how}/{call}/{disp}"


def ladder():
    """one representative per reachable verdict level (each x 6 thresholds through the direct arming)"""
    return [
        (pickle.dumps([1, "a", {"k": (2, 3)}], 2), "ladder:benign"),
        (asm.assemble([("GLOBAL", ("collections", "OrderedDict")), "EMPTY_TUPLE", "REDUCE", "POP", "NONE", "STOP"]),
         "ladder:unused"),
        (asm.assemble([("PROTO", 2), ("GLOBAL", ("verif_sink", "record")), ("BININT1", 7), "TUPLE1", "REDUCE", "STOP"]),
         "ladder:nonstd_call"),
        (asm.assemble([("GLOBAL", ("os", "getcwd")), "EMPTY_TUPLE", "REDUCE", "STOP"]), "ladder:os"),
        (asm.assemble([("GLOBAL", ("builtins", "eval")), "MARK", ("UNICODE", "1+1"), "TUPLE", "REDUCE", "STOP"]),
         "ladder:eval"),
        (asm.assemble([("PROTO", 2), ("PROTO", 2), ("BININT1", 1), "STOP"]), "ladder:dupproto"),
    ]


BAD_TAILS = [["POP", "POP", "POP"], [("BINGET", 99)], ["TUPLE"], ["APPEND"], [("PERSID", "abc")], ["REDUCE"],
             ["SETITEM"], ["POP_MARK", "POP_MARK"], ["BUILD", "BUILD"], ["STACK_GLOBAL"], ["NEWOBJ"], ["LIST"],
             [("GET", 7)], ["DICT"], ["APPENDS"], ["SETITEMS"], ["ADDITEMS"], ["MEMOIZE", "POP", "POP", "POP"]]


def gen_crashing(rng):
    """a sink / os / eval call FIRST, then an opcode the symbolic interpreter cannot execute: the stock
    unpickler would have made the call before failing; the checked loader must not"""
    voc = rng.choice([v for v in VOC if v[0] in ("verif_sink", "os", "builtins")])
    prog, lab = gen_call(rng, voc=voc, call=rng.choice(["REDUCE", "OBJ", "INST"]), disp=rng.choice(["result", "pop"]))
    bad = rng.choice(BAD_TAILS)
    if rng.random() < 0.2:
        prog = bad + prog              # ... or the offending opcode comes first
    else:
        prog = prog[:-1] + bad + ["STOP"]
    return asm.assemble(prog), "crash:" + lab + "+" + asm.show(bad)


def gen_undecodable(rng):
    base = rng.choice([asm.fam_benign(rng), asm.fam_flagged(rng)[0], EVIL])
    c = rng.randrange(9)
    if c == 0:
        return base[:rng.randrange(0, len(base))], "undecodable:truncated"
    if c == 1:
        return b"", "undecodable:empty"
    if c == 2:
        return EVIL[:-1] + b"\xff.", "undecodable:unknown-opcode-after-call"
    if c == 3:
        return bytes(rng.randrange(256) for _ in range(rng.randrange(1, 12))), "undecodable:garbage"
    if c == 4:
        return EVIL[:-1] + b"Iabc\n.", "undecodable:bad-int-after-call"
    if c == 5:
        return b"S'unterminated\n.", "undecodable:bad-string"
    if c == 6:
        return EVIL[:-1] + b"X\x01\x00\x00\x00\xff.", "undecodable:bad-utf8-after-call"
    if c == 7:
        return b"V\\u12\n.", "undecodable:bad-escape"
    return base[:-1], "undecodable:no-stop"


def gen_unsupported(rng):
    c = rng.randrange(6)
    if c == 0:
        return pickle.dumps(1.5, 0), "unsupported:FLOAT"
    if c == 1:
        return EVIL[:-1] + b"F1.0\n.", "unsupported:FLOAT-after-call"
    if c == 2:
        return pickle.dumps(bytearray(b"ab"), 5), "unsupported:BYTEARRAY8"
    if c == 3:
        return EVIL[:-1] + b"\x82\x01.", "unsupported:EXT1-after-call"
    if c == 4:
        return b"\x97.", "unsupported:NEXT_BUFFER"
    return pickle.dumps([1.5, 2], 0), "unsupported:FLOAT-in-list"


def gen_inputs(rng, n):
    out = list(ladder())
    for kind in ["unused", "nonstd", "dupproto", "osmod", "eval", "nonstd_call", "builtin_call"]:
        b, lab = asm.fam_flagged(rng, kind)
        out.append((b, "flagged:" + lab))
    for voc in VOC:                                   # every vocabulary entry at least once
        p, lab = gen_call(rng, voc=voc)
        out.append((asm.assemble(p), "call:" + lab))
    while len(out) < n:
        r = rng.random()
        if r < 0.14:
            out.append((asm.fam_benign(rng), "benign:fam"))
        elif r < 0.26:
            b, v, proto = progs.natural_pickle(rng, plain=rng.random() < 0.6)
            out.append((b, "natural:p%d" % proto))
        elif r < 0.60:
            p, lab = gen_call(rng)
            out.append((asm.assemble(p), "call:" + lab))
        elif r < 0.78:
            out.append(gen_crashing(rng))
        elif r < 0.89:
            out.append(gen_undecodable(rng))
        else:
            out.append(gen_unsupported(rng))
    return out


def first_pickle(data):
    """the first pickle's bytes according to the stock tokenizer (independent of fickling), or None"""
    try:
        end = None
        for info, _arg, pos in pickletools.genops(data):
            if info.name == "STOP":
                end = pos + 1
        return data[:end] if end is not None else None
    except Exception:
        return None


_MI_CACHE = {}


def model_inputs(prefix):
    if prefix not in _MI_CACHE:
        _MI_CACHE[prefix] = _model_inputs(prefix)
    return _MI_CACHE[prefix]


def _model_inputs(prefix):
    """(decode, protos, stds, reprs) of the analysed pickle in the wire format of DispatchLoader.v"""
    from fickling.fickle import is_std_module
    if prefix is None:
        return "none", [], [], []
    try:
        ops = vmlib.abstract_ops(prefix)
    except Exception:
        return "none", [], [], []
    if ops is None:
        return "none", [], [], []
    protos = [[str(i), str(arg)] for i, (info, arg, _p) in enumerate(pickletools.genops(prefix)) if info.name == "PROTO"]
    from harness import anlib
    mods, consts, strs = set(), {}, []
    for o in ops:
        if isinstance(o, list) and o[0] in ("GLOBAL", "INST"):
            mods.add(bytes.fromhex(o[1][1:]).decode("utf-8", "replace"))
        elif isinstance(o, list) and o[0] == "CONST":
            key = sx(o[1])
            if key not in consts:
                v = anlib.const_value(o[1])
                consts[key] = (o[1], ast.unparse(ast.Constant(v)))
            if isinstance(o[1], list) and o[1][0] == "str":
                strs.append(anlib.const_value(o[1]))
    mods.update(strs)
    stds = []
    for m in sorted(mods):
        try:
            if is_std_module(m):
                stds.append(wire(m))
        except Exception:
            pass
    reprs = [[c, wire(t)] for c, t in consts.values()]
    return ops, protos, stds, reprs


def flaky_pairs():
    """(first-read content A, re-read content B, label): same length, same token boundaries"""
    A = asm.assemble
    pairs = [
        (A([("GLOBAL", ("collections", "OrderedDict")), "STOP"]),
         A([("GLOBAL", ("collections", "defaultdict")), "STOP"]), "safe-global/other-safe-global"),
        (A([("GLOBAL", ("collections", "deque")), "STOP"]),
         A([("GLOBAL", ("verif_sink", "record")), "STOP"]), "safe-global/sink-global"),
        (A([("GLOBAL", ("collections", "deque")), "EMPTY_TUPLE", "REDUCE", "STOP"]),
         A([("GLOBAL", ("verif_sink", "record")), "EMPTY_TUPLE", "REDUCE", "STOP"]), "std-call/sink-call"),
        (A([("PROTO", 2), ("GLOBAL", ("collections", "deque")), "EMPTY_TUPLE", "REDUCE", "STOP"]),
         A([("PROTO", 2), ("GLOBAL", ("verif_sink", "record")), "EMPTY_TUPLE", "REDUCE", "STOP"]),
         "proto+std-call/sink-call"),
        (A([("BININT1", 1), "STOP"]), A([("BININT1", 7), "STOP"]), "int/other-int"),
        (A([(S, "os"), (S, "getcwd"), "STACK_GLOBAL", "EMPTY_TUPLE", "REDUCE", "STOP"]),
         A([(S, "os"), (S, "getpid"), "STACK_GLOBAL", "EMPTY_TUPLE", "REDUCE", "STOP"]), "os-call/other-os-call"),
        (A([("GLOBAL", ("builtins", "len")), "MARK", ("BINUNICODE", "abc"), "TUPLE", "REDUCE", "STOP"]),
         A([("GLOBAL", ("builtins", "len")), "MARK", ("BINUNICODE", "xyz"), "TUPLE", "REDUCE", "STOP"]),
         "same-call/other-argument"),
        (A([("GLOBAL", ("builtins", "len")), "MARK", "EMPTY_LIST", "TUPLE", "REDUCE", "STOP"]),
         A([("GLOBAL", ("builtins", "len")), "MARK", "EMPTY_LIST", "TUPLE", "REDUCE", "STOP"]),
         "consistent (A = B)"),
        (pickle.dumps([1, "a", {"k": (2, 3)}], 2), pickle.dumps([1, "b", {"q": (2, 9)}], 2), "natural/other-natural"),
        # the first parse succeeds but what it re-serialises to does NOT re-parse (an opcode fickling has no class
        # for / an unknown opcode byte): a non-returning case; the stock unpickler would have called the sink first
        (A([("GLOBAL", ("verif_sink", "record")), "EMPTY_TUPLE", "REDUCE", ("INT", 100), "STOP"]),
         A([("GLOBAL", ("verif_sink", "record")), "EMPTY_TUPLE", "REDUCE"]) + b"F1.0\n.", "call+INT/call+FLOAT"),
        (A([("GLOBAL", ("verif_sink", "record")), "EMPTY_TUPLE", "REDUCE", ("BININT1", 1), "STOP"]),
         A([("GLOBAL", ("verif_sink", "record")), "EMPTY_TUPLE", "REDUCE"]) + b"\xff\x01.", "call+int/call+unknown-opcode"),
    ]
    out = []
    for a, b, lab in pairs:
        assert len(a) == len(b), lab
        out.append((a, b, "flaky:" + lab))
        if a != b:
            out.append((b, a, "flaky:rev:" + lab))
    return out


def first_parse_dumps(a, b):
    """what the first Pickled.load re-serialises a flaky stream to (the parse itself, run here where no hook is
    ever installed), or None when it raises"""
    from fickling.fickle import Pickled
    try:
        return Pickled.load(c02_streams.Flaky(a, b)).dumps()
    except Exception:
        return None


def make_flaky_cases(rng, cases, tier):
    for a, b, label in flaky_pairs():
        d = first_parse_dumps(a, b)
        if d is None:
            continue
        prefix = first_pickle(d)
        for arming, thrs in (("direct", range(6)), ("hook", [0]), ("ctx", rng.sample(range(6), 2))):
            for thr in thrs:
                hist = rng.choice(HISTORIES) if arming != "direct" else []
                cases.append({"id": len(cases), "label": label, "arming": arming, "thr": thr, "kind": "flaky",
                              "hist": hist, "content": a.hex(), "off": 0, "evil": b.hex(),
                              "first_parse_dumps": d.hex(),
                              "prefix": prefix.hex() if prefix is not None else None})
    return cases


def make_cases(rng, inputs, tier):
    """input x threshold x stream kind x arming (see chk.rule)"""
    cases = []

    def add(data, label, arming, thr, kind):
        if kind in KINDS_BYTES:
            pre = b""
        else:
            pre = rng.choice([b"", b"", b"N.", b"junk\x00", EVIL])
        tail = rng.choice([b"", b"", EVIL, b"garbage", pickle.dumps([1, 2])])
        content = pre + data + tail
        prefix = first_pickle(data + tail)
        hist = []
        if arming in ("hook", "ctx", "ctx_default"):
            hist = rng.choice(HISTORIES)
        cases.append({"id": len(cases), "label": label, "arming": arming, "thr": thr, "kind": kind, "hist": hist,
                      "content": content.hex(), "off": len(pre),
                      "evil": EVIL.hex() if kind.startswith("swap") else None,
                      "prefix": prefix.hex() if prefix is not None else None})

    allk = KINDS_BYTES + KINDS_FILE
    for data, label in inputs:
        full = tier == "thorough" or label.startswith("ladder")
        for thr in range(6):
            add(data, label, rng.choice(["direct", "direct", "direct_pos"]), thr, rng.choice(allk))
            add(data, label, "direct", thr, rng.choice(["swap", "swap", "swap_nonseek"]))
            if full:
                for k in allk:
                    add(data, label, "direct", thr, k)
        add(data, label, "hook", 0, rng.choice(allk))
        add(data, label, "hook", 0, "swap")
        add(data, label, "ctx_default", 0, rng.choice(allk))
        for thr in rng.sample(range(6), 6 if full else 2):
            add(data, label, "ctx", thr, rng.choice(allk))
        if full:
            for k in allk:
                add(data, label, "hook", 0, k)
                add(data, label, "ctx", rng.randrange(6), k)
    return make_flaky_cases(rng, cases, tier)


# ---------------------------------------------------------------- running
def run_child(cases, scratch):
    job = {"scratch": scratch, "cases": cases}
    p = subprocess.run([PY, CHILD], input=json.dumps(job), capture_output=True, text=True,
                       env=env_child(), cwd=scratch, timeout=1500)
    lines = [l for l in p.stdout.splitlines() if l.startswith("{")]
    if len(lines) != len(cases):
        raise RuntimeError(f"child returned {len(lines)} results for {len(cases)} cases: {p.stderr[-800:]}")
    return [norm_loads(json.loads(l)) for l in lines]


def norm_loads(real):
    """the bytes the stock unpickler EXECUTES of each buffer it was handed: the buffer's first pickle"""
    out = []
    for h in real.get("loads") or []:
        try:
            fp = first_pickle(bytes.fromhex(h))
            out.append(fp.hex() if fp is not None else h)
        except ValueError:
            out.append(h)
    real["loads_raw"] = real.get("loads")
    real["loads"] = out
    return real


def run_children(cases, scratch, workers=14):
    if not cases:
        return []
    per = max(1, (len(cases) + workers - 1) // workers)
    chunks = [cases[i:i + per] for i in range(0, len(cases), per)]
    with ThreadPoolExecutor(max_workers=workers) as ex:
        res = list(ex.map(lambda c: run_child(c, scratch), chunks))
    return [r for chunk in res for r in chunk]


def model_line(case):
    content = bytes.fromhex(case["content"])
    prefix = bytes.fromhex(case["prefix"]) if case["prefix"] is not None else None
    dec, protos, stds, reprs = model_inputs(prefix)
    arming = {"direct": "direct", "direct_pos": "direct", "hook": "hook", "ctx": "ctx", "ctx_default": "ctx"}[case["arming"]]
    later = bytes.fromhex(case["evil"]) if case["evil"] is not None else content
    # a stream that misbehaves during the parse: the model is told only which bytes the first parse
    # re-serialises to (C02_bytes_executed_are_bytes_analysed: nothing else about it matters)
    fp = ["dumps", bytes.fromhex(case["first_parse_dumps"])] if case["kind"] == "flaky" else "stable"
    return sx(["c02_load", arming, case["thr"], MODEL_KIND[case["kind"]], case["off"], content, later,
               dec, protos, stds, reprs, list(case.get("hist") or []), fp])


def parse_events(text):
    inner = text[1:-1]
    if not inner:
        return []
    out = []
    for item in inner.split(","):
        m, n = item.split(":")
        out.append([bytes.fromhex(m[1:]).decode("utf-8", "replace"), bytes.fromhex(n[1:]).decode("utf-8", "replace")])
    return out


def real_reads(real):
    if real.get("log") is None:
        return None
    phases = sorted({0 if ph == "parse" else 2 for ph, _ in real["log"]})
    return "r" + "".join(str(p) for p in phases)


def nothing_ran(real):
    return real.get("events") == [] and real.get("sink") == 0 and real.get("loads") == [] and \
        real.get("load_calls") == 0 and not real.get("imports")


def compare(case, mline, real):
    """model prediction vs observation; returns None when they agree, 'declined' when the model declines,
    else a description"""
    f = mline.split(" ")
    head = f[0]
    if head.startswith("!") or head == "UNMODELLED-BINDING":
        return f"model answered {mline[:80]}"
    if real["r"] == "CHILD-ERROR":
        return f"child error {real.get('exc')}"
    rr = real_reads(real)
    if rr is not None and f[-1] != rr:
        return f"stream access phases: model {f[-1]} real {rr} ({real['log'][-4:]})"
    if head in ("RET", "UNPICKLE-ERR"):
        mbytes, mev = f[1][1:], parse_events(f[2])
        if real["r"] == "UNSAFE":
            return f"model accepts ({head}) but the real load raised UnsafeFileError({real.get('sev')})"
        if real["loads"] != [mbytes]:
            return f"bytes handed to the stock unpickler: model {mbytes[:60]} real {real['loads']!r:.120}"
        if real["load_calls"] != 0:
            return "the stock pickle.load(file) was called"
        ref = real.get("ref") or {}
        stock = ref.get("stock")
        got = ["val", real["value"]] if real["r"] == "RET" else ["exc", real.get("exc")]
        if stock != got:
            return f"outcome {got!r:.100} differs from the stock unpickler's {stock!r:.100} on the analysed bytes"
        rev = real["events"]
        if head == "RET" and real["r"] == "RET":
            if rev != mev:
                return f"find_class events: model {mev} real {rev}"
        else:
            k = min(len(rev), len(mev))
            if rev[:k] != mev[:k]:
                return f"find_class events diverge: model {mev} real {rev}"
        return None
    if head == "UNSAFE":
        if real["r"] != "UNSAFE":
            return f"model raises UnsafeFileError({f[1]}) but real outcome is {real['r']} {real.get('exc', '')}"
        if real.get("sev") != f[1]:
            return f"UnsafeFileError severity: model {f[1]} real {real.get('sev')}"
        if not nothing_ran(real):
            return f"refused, yet events={real['events']} sink={real['sink']} loads={len(real['loads'])}"
        return None
    if head in ("PARSE", "ANALYSIS", "DUMPS"):
        if head == "ANALYSIS" and f[1] in ("Unmodelled", "Fuel", "UNKNOWN-ANALYSIS"):
            return "declined"
        if real["r"] != "EXC":
            return f"model: {mline[:40]}; real outcome {real['r']} {real.get('sev', '')}"
        if not nothing_ran(real):
            return f"failed before loading, yet events={real['events']} sink={real['sink']} loads={len(real['loads'])}"
        if head == "PARSE":
            want = PARSE_EXC.get(f[1])
            decodable = case["prefix"] is not None
            if want and decodable and real["exc"] != want:
                return f"parse error class: model {want} real {real['exc']}"
        if head == "ANALYSIS":
            if real["exc"] not in ANALYSIS_EXC.get(f[1], {f[1]}):
                return f"analysis error class: model {f[1]} real {real['exc']}"
        if head == "DUMPS":
            return "model reached the unreachable dumps error"
        return None
    return f"unparsed model line {mline[:60]}"


GRAVE = ("something ran", "returned an object although", "no verdict", "is not the program analysed")
SERIOUS = ("after the analysis pass", "not the bytes analysed", "stock pickle.load", "differ")


def gravity(why):
    if any(g in why for g in GRAVE):
        return 0
    if any(g in why for g in SERIOUS):
        return 1
    return 2


def oracle(case, real):
    """C02 stated directly on the observation (no model).  None = holds; else the gravest reason."""
    reasons = oracle_all(case, real)
    return min(reasons, key=gravity) if reasons else None


def oracle_all(case, real):
    if real["r"] == "CHILD-ERROR":
        return []
    out = []
    thr = case["thr"]
    arming = case["arming"]
    for ph, what in (real.get("log") or []):
        if ph != "parse":
            out.append(f"the caller's stream was accessed ({what}) after the analysis pass")
            break
    if real["load_calls"] != 0:
        out.append("the stock pickle.load(file) ran on the caller's stream")
    if real.get("loads_raw") and real.get("analysed_src") is not None and \
            real.get("exec_src") != real.get("analysed_src"):
        out.append(f"the program of the bytes executed is not the program analysed: analysed "
                   f"`{real['analysed_src']!s:.160}` -- executed `{real.get('exec_src')!s:.160}`")
    ref = real.get("ref")
    prefix = case["prefix"]
    if ref is None or ref["verdict"][0] != "ok":
        why = "no complete pickle" if ref is None else f"{ref['verdict'][0]} ({ref['verdict'][1]})"
        if real["r"] == "RET":
            out.append(f"returned an object although there is no verdict: {why}")
        if not nothing_ran(real):
            out.append(f"no verdict ({why}) yet something ran: find_class={real['events']} sink={real['sink']} "
                       f"unpickled={len(real['loads'])} imported={real.get('imports')}")
        if real["r"] == "UNSAFE" and ref is None:
            out.append("UnsafeFileError without a complete pickle to give a verdict on")
        return out
    name = ref["verdict"][1]
    rank = DOC.index(name)
    # accepted severity: the argument for the direct loader; LIKELY_SAFE for the global hook; for the
    # context manager LIKELY_SAFE (what the tree does) or its argument (what its signature suggests)
    may_return = rank <= (thr if arming in ("direct", "direct_pos", "ctx") else 0)
    may_refuse = rank > (thr if arming in ("direct", "direct_pos") else 0)
    if real["r"] == "UNSAFE":
        if not may_refuse:
            out.append(f"UnsafeFileError although the verdict {name} is within the accepted severity {DOC[thr]}")
        if real.get("sev") != name:
            out.append(f"UnsafeFileError carries severity {real.get('sev')}, the verdict is {name}")
        elif real.get("info") != ref.get("to_dict"):
            out.append("UnsafeFileError.info is not the verdict's to_dict()")
        if not nothing_ran(real):
            out.append(f"refused ({name}) yet something ran: find_class={real['events']} "
                       f"sink={real['sink']} unpickled={len(real['loads'])} imported={real.get('imports')}")
        return out
    # returned, or raised something else
    if not may_return:
        if real["r"] == "RET":
            out.append(f"returned an object although the verdict {name} exceeds the accepted severity "
                       f"{DOC[thr if arming != 'hook' else 0]} (find_class={real['events']} sink={real['sink']})")
        elif not nothing_ran(real):
            out.append(f"verdict {name} exceeds the accepted severity yet something ran: find_class={real['events']} "
                       f"sink={real['sink']}")
        else:
            out.append(f"verdict {name} exceeds the accepted severity but the error is {real.get('exc')}, "
                       f"not UnsafeFileError")
        return out
    if real["loads"] != [prefix]:
        out.append(f"bytes executed {real['loads']!r:.100} are not the bytes analysed {prefix[:60]}")
    got = ["val", real["value"]] if real["r"] == "RET" else ["exc", real.get("exc")]
    if got != ref["stock"]:
        out.append(f"result {got!r:.100} differs from the stock unpickler's {ref['stock']!r:.100} on the analysed bytes")
    if real["events"] != ref["stock_events"] or real["sink"] != ref["stock_sink"]:
        extra = real["events"][:len(ref["stock_events"])] != real["events"] or \
            real["events"] != ref["stock_events"][:len(real["events"])] or real["sink"] > ref["stock_sink"]
        head = "something ran that was not in the analysed bytes" if extra else "effects differ"
        out.append(f"{head}: find_class {real['events']} / sink calls {real['sink']}; the stock unpickler on the "
                   f"analysed bytes: {ref['stock_events']} / {ref['stock_sink']}")
    return out


def summarise(case, real):
    return {"label": case["label"], "arming": case["arming"], "earlier_hook_ops": case.get("hist"),
            "thr": DOC[case["thr"]], "kind": case["kind"],
            "off": case["off"], "outcome": real["r"], "sev": real.get("sev"), "exc": real.get("exc"),
            "find_class": real.get("events"), "sink": real.get("sink"),
            "verdict": (real.get("ref") or {}).get("verdict")}


def public_case(case, why):
    return {"oracle": why, **{k: case.get(k) for k in ("label", "arming", "hist", "thr", "kind", "content", "off",
                                                        "evil", "prefix", "first_parse_dumps")},
            "threshold": DOC[case["thr"]]}


def main(tier, seed):
    chk = Check("C02", tier, seed)
    chk.rule = ("inputs: verdict ladder (6), fam_flagged (7), every entry of a 25-global harmless vocabulary x "
                "resolve (GLOBAL/STACK_GLOBAL/INST) x call (none/REDUCE/OBJ/NEWOBJ/NEWOBJ_EX/INST) x disposal, "
                "natural pickles of random values at protocols 0-5, call-then-crash programs (analysis raises), "
                "undecodable and unsupported-opcode streams; each x 6 thresholds through fickling.load on a random "
                "stream kind and on a content-swapping stream, + global hook, + context manager (default and with a "
                "threshold argument); prefix / trailing data (incl. a sink-calling second pickle) at random. "
                "A case is non-trivial when the verdict is above LIKELY_SAFE or analysis/parse fails; distinct by "
                "(input label, arming, threshold, stream kind, outcome)")
    chk.extra["assumptions"] = [
        "Print Assumptions: every C02 theorem is closed under the global context (no axioms)",
        "the stock unpickler, pickletools' argument decoding, constant repr and is_std_module are Section variables of "
        "every theorem (the theorems hold for ALL of them); in the correspondence they are instantiated with RefVM on "
        "the abstract program, harness/vmlib.abstract_ops, ast.unparse and fickle.is_std_module",
        "the result of the first Pickled.load(file) is universally quantified in the theorems (any opcode list / "
        "error: any stream, including one that answers a re-read differently); well-behaved streams are a content "
        "oracle indexed by phase of the call; in the correspondence a flaky stream enters the model only through the "
        "bytes its first parse re-serialises to (computed by running Pickled.load on the same stream class)",
        "the parse itself is Codec.load_model (C06: reader widths written from CPython 3.12 pickletools; argument "
        "content validation enters through [decode]); the verdict is Analysis.analyze + verdict (C04/C19 tie)",
        "loader.load's print_results / json_output_path / *args / **kwargs are not modelled (defaults only)",
        "the ML environment (pickle.loads rebound) is excluded by the hypothesis g_ml = None of C02_armed_equiv (C07/C12)",
    ]
    chk.extra["bounds"] = {"theorems": "none (all streams, offsets, contents, thresholds, histories)",
                           "correspondence": "generated inputs x 6 thresholds x 9 stream kinds x 5 arming forms x "
                                             "9 earlier hook histories (sampled in quick, product for the ladder)"}
    built = chk.regen_and_build(["proofs/LoaderProofs.vo"])
    if built:
        chk.prove()
    scratch = os.path.join(BUILD, "scratch", f"c02-{os.getpid()}")
    os.makedirs(scratch, exist_ok=True)
    bad = []
    cases, reals = [], []
    try:
        from fickling.analysis import Severity
        sevs = list(Severity)
        # ---- exhaustive: the threshold comparison as written, 6 x 6 ----
        if built:
            drv = Driver()
            out = drv.query([sx(["sev_ops", i, j]) for i in range(len(sevs)) for j in range(len(sevs))])
            mism, k = [], 0
            for i, a in enumerate(sevs):
                for j, b in enumerate(sevs):
                    m_le = out[k].split(" ")[1]
                    r_le = "T" if (a <= b) else "F"
                    chk.count()
                    if m_le != r_le:
                        mism.append({"kind": "le", "pair": [a.name, b.name], "real": r_le, "model": m_le})
                    k += 1
            chk.oblige("correspondence: `result.severity <= max_acceptable_severity`, all 36 pairs (exhaustive)",
                       not mism and len(sevs) == 6, json.dumps(mism[:4]))
            bad += mism
        # ---- loads ----
        n_inputs = 220 if tier == "quick" else 3000
        inputs = gen_inputs(chk.rng, n_inputs)
        cases = make_cases(chk.rng, inputs, tier)
        reals = run_children(cases, scratch)
        child_err = [r for r in reals if r["r"] == "CHILD-ERROR"]
        chk.oblige("child processes ran every case", not child_err, json.dumps(child_err[:3]))
        declined = 0
        if built:
            mlines = Driver().query([model_line(c) for c in cases])
            mism = []
            for c, m, r in zip(cases, mlines, reals):
                d = compare(c, m, r)
                if d == "declined":
                    declined += 1
                elif d:
                    mism.append({"kind": "load", "case": c, "model": m[:300], "real": summarise(c, r), "diff": d})
            chk.oblige(f"correspondence: Loader+Hooks model vs fickling.load / hooked pickle.load / context manager "
                       f"on {len(cases)} loads ({declined} declined by the model)",
                       not mism and declined * 10 <= len(cases),
                       json.dumps([{k: v for k, v in m.items() if k != 'case'} for m in mism[:4]]))
            bad += mism
        # the property itself, model-free, on every observed load (also the violation search below)
        orc = [(c, oracle(c, r)) for c, r in zip(cases, reals)]
        orc_bad = [(c, w) for c, w in orc if w]
        chk.oblige(f"property oracle (model-free) holds on all {len(cases)} observed loads", not orc_bad,
                   json.dumps([{"why": w, "label": c["label"], "arming": c["arming"], "thr": c["thr"],
                                "kind": c["kind"]} for c, w in orc_bad[:4]]))
        for c, r in zip(cases, reals):
            chk.count()
            v = (r.get("ref") or {}).get("verdict") or ["none", None]
            outcome = r["r"] + ":" + str(r.get("sev") or r.get("exc") or "")
            if v[0] != "ok" or v[1] != "LIKELY_SAFE":
                chk.nontriv((c["label"], c["arming"], c["thr"], c["kind"], outcome))
            for key in ("arming:" + c["arming"], "kind:" + c["kind"], "outcome:" + r["r"],
                        "verdict:" + str(v[1] if v[0] == "ok" else v[0]), "family:" + c["label"].split(":")[0]):
                chk.stats[key] = chk.stats.get(key, 0) + 1
        chk.stats["declined-by-model"] = declined
        picked = set()
        for c, r in zip(cases, reals):
            key = (r["r"], c["arming"].split("_")[0])
            if key not in picked and len(picked) < 6 and c["kind"].startswith("swap") and \
                    not c["label"].startswith("ladder"):
                picked.add(key)
                chk.sample(summarise(c, r))

        def search():
            for m in bad:
                if m["kind"] == "le":
                    a, b = m["pair"]
                    if (m["real"] == "T") != (DOC.index(a) <= DOC.index(b)):
                        return {"oracle": f"Severity.{a} <= Severity.{b} evaluates to {m['real']}", **m}
            # disagreeing inputs first, then the whole corpus; among failing cases prefer the most telling
            # one (something ran that must not have) over a merely wrong exception / value
            first = [m["case"]["id"] for m in bad if m["kind"] == "load"]
            order = {i: n for n, i in enumerate(first)}
            failing = [(c, w) for c, w in orc if w]

            def prio(cw):
                c, w = cw
                return (gravity(w), order.get(c["id"], len(cases)), c["id"])
            if failing:
                c, w = min(failing, key=prio)
                return public_case(c, w)
            return None

        report_broken_obligations(chk, search)
    finally:
        shutil.rmtree(scratch, ignore_errors=True)
    return chk.finish()


def replay(path):
    doc = json.load(open(path))
    case = doc.get("case")
    if not case or "content" not in case:
        print("replay: no concrete input recorded; re-running the quick check")
        return main("quick", doc.get("seed", 0))
    scratch = os.path.join(BUILD, "scratch", f"c02-replay-{os.getpid()}")
    os.makedirs(scratch, exist_ok=True)
    try:
        c = dict(case)
        c["id"] = 0
        real = run_child([c], scratch)[0]
        why = oracle(c, real)
    finally:
        shutil.rmtree(scratch, ignore_errors=True)
    if why:
        print(f"VIOLATION property=C02 replay={path}")
        print(why)
        return 1
    print("replay: the recorded case no longer fails")
    return 0
