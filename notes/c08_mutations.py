#!/venv/bin/python
"""Mutation campaign for C08 (run from the verification worktree): python notes/c08_mutations.py [names...]
Creates a scratch worktree of /repo under /tmp, applies one mutation at a time to fickling/fickle.py,
runs `check.py C08 --tier quick` with FICKLING_REPO pointing at it, and removes the worktree again."""
import json
import os
import re
import subprocess
import sys

HERE = os.path.dirname(os.path.dirname(os.path.abspath(__file__)))
MUT = "/tmp/c08mut"
F = MUT + "/fickling/fickle.py"


def sh(cmd):
    return subprocess.run(cmd, shell=True, capture_output=True, text=True)


MUTS = {
    "M1-drop-one-pop": [("                self.insert(-1, Pop())  # Pop obj and reduce_res under\n                self.insert(-1, Pop())\n",
                         "                self.insert(-1, Pop())  # Pop obj and reduce_res under\n")],
    "M2-put-to-memoize": [("self.insert(-1, Put(321987))  # Put obj in memo", "self.insert(-1, Memoize())  # Put obj in memo")],
    "M3-memo-id-minus-1": [("memo_id = len(interpreter.memory)\n", "memo_id = len(interpreter.memory) - 1\n")],
    "M4-memo-id-max-plus-1": [("memo_id = len(interpreter.memory)\n", "memo_id = max(interpreter.memory, default=-1) + 1\n")],
    "M5-reduce-before-tuple": [("        if run_first:\n            self.insert(i, Reduce())\n",
                                "        if run_first:\n            self.insert(i - 1, Reduce())\n")],
    "M6-append-forgets-pop": [("        if pop_result:\n            self.insert(-1, Pop())\n",
                               "        if pop_result and False:\n            self.insert(-1, Pop())\n")],
    "M7-magic-pop-at-index": [("        self.insert(index + 1, Pop())\n", "        self.insert(index, Pop())\n")],
    "M11-magic-negative-unresolved": [("            index = max(len(self) + index, 0)\n", "            index = index if index == -1 else max(len(self) + index, 0)\n")],
    "M12-accept-none-arg": [("        return isinstance(obj, (int, float, str, bytes))", "        return obj is None or isinstance(obj, (int, float, str, bytes))")],
    "M8-append-after-stop": [("        self.insert(-1, Tuple())\n        self.insert(-1, Reduce())\n        if pop_result:",
                              "        self.insert(-1, Tuple())\n        self._opcodes.append(Reduce())\n        if pop_result:")],
    "M9-skip-only-proto": [("while isinstance(self[i], (Proto, Frame)):", "while isinstance(self[i], Proto):")],
    "M10-callobj-swap-keys": [("        self.insert(-1, Get.create(1))\n        # [func]\n        self.insert(-1, Mark())\n        # [func, mark]\n        self.insert(-1, Get.create(2))",
                               "        self.insert(-1, Get.create(2))\n        # [func]\n        self.insert(-1, Mark())\n        # [func, mark]\n        self.insert(-1, Get.create(1))")],
    "H1-harmless-refactor": [("        i = 0\n        while isinstance(self[i], (Proto, Frame)):\n            i += 1\n        self.insert(i, Global.create(module, attr))\n        i += 1\n        self.insert(i, Mark())\n        i += 1\n",
                              "        idx = 0\n        while isinstance(self[idx], (Frame, Proto)):\n            idx = idx + 1\n        glob = Global.create(module, attr)\n        mark = Mark()\n        self.insert(idx, mark)\n        self.insert(idx, glob)\n        i = idx + 2\n")],
}


def main():
    sh(f"git -C /repo worktree remove --force {MUT}; git -C /repo worktree prune; git -C /repo worktree add --detach {MUT}")
    orig = open(F).read()
    only = sys.argv[1:]
    try:
        for name, edits in MUTS.items():
            if only and name not in only:
                continue
            s = orig
            if any(a not in s for a, _ in edits):
                print(name, "PATTERN-NOT-FOUND", flush=True)
                continue
            for a, b in edits:
                s = s.replace(a, b, 1)
            open(F, "w").write(s)
            env = dict(os.environ, FICKLING_REPO=MUT, VERIF_SEED="0")
            p = subprocess.run(["/venv/bin/python", "check.py", "C08", "--tier", "quick"], cwd=HERE, env=env,
                               capture_output=True, text=True)
            viol = [l for l in p.stdout.splitlines() if l.startswith("VIOLATION")]
            detail = ""
            if viol:
                m = re.search(r"replay=(\S+)", viol[0])
                try:
                    d = json.load(open(m.group(1)))
                    c = d.get("case") or {}
                    detail = json.dumps({"oracle": c.get("oracle"),
                                         "helper": (c.get("case") or {}).get("mode", {}).get("helper")})
                except Exception as e:
                    detail = repr(e)
            print(name, "exit", p.returncode, viol[:1], detail, flush=True)
    finally:
        open(F, "w").write(orig)
        sh(f"git -C /repo worktree remove --force {MUT}; git -C /repo worktree prune")


if __name__ == "__main__":
    main()
